#!/bin/bash
# MANIFEST.setup_cmd: build the dependency caches (third-party crates + model crates) so that
# each check only rebuilds the roughenough crate from /repo's current sources.  Offline.
# The checks work without the caches (they then build everything themselves, slower).
set -u
cd "$(dirname "$0")"
export CARGO_NET_OFFLINE=true
python3 - <<'PY'
import os, shutil, subprocess, sys
sys.path.insert(0, "vlib")
import common as C
os.makedirs(C.CACHE, exist_ok=True)
allfiles = sorted(set(h.file for h in C.load_harnesses()))
# ---- kani cache
s = C.make_scratch("setup-kani", [], client_bin=True)
try:
    shutil.rmtree(C.KANI_CACHE, ignore_errors=True)
    r = subprocess.run(["cargo", "kani", "--only-codegen", "-Z", "stubbing", "-Z", "unstable-options",
                        "--target-dir", C.KANI_CACHE], cwd=s, env=C.ENV)
    print("kani cache build rc", r.returncode)
    # drop the roughenough crate's own artefacts; only dependencies are cached
    for root, dirs, files in os.walk(C.KANI_CACHE):
        for d in list(dirs):
            if d.startswith("roughenough"):
                shutil.rmtree(os.path.join(root, d), ignore_errors=True)
        for f in files:
            if "roughenough" in f:
                try: os.remove(os.path.join(root, f))
                except OSError: pass
finally:
    C.remove_scratch(s)
# ---- native cache (real dependencies, for counterexample replay)
s = C.make_scratch("setup-native", [], native=True, client_bin=True)
try:
    shutil.rmtree(C.NATIVE_CACHE, ignore_errors=True)
    r = subprocess.run(["cargo", "test", "--offline", "--no-run", "--features", "verif_replay",
                        "--target-dir", C.NATIVE_CACHE], cwd=s, env=C.ENV)
    print("native cache build rc", r.returncode)
    for root, dirs, files in os.walk(C.NATIVE_CACHE):
        for d in list(dirs):
            if d.startswith("roughenough"):
                shutil.rmtree(os.path.join(root, d), ignore_errors=True)
        for f in files:
            if "roughenough" in f:
                try: os.remove(os.path.join(root, f))
                except OSError: pass
finally:
    C.remove_scratch(s)
PY
exit 0
