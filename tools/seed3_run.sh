#!/bin/bash
# Round 3: confirm and evaluate one seed.  usage: seed3_run.sh <ID> <PROP> [check args...]
# Deliverables of the sub-agent are expected in /tmp/seed3-out/<ID>/ (patch.diff, demo.diff, demo_cmd.txt,
# notes.md); they are copied to /verif/seeded/<ID>-3/ and the confirmation line is stored there too.
cd "$(dirname "$0")/.."
ID=$1; PROP=$2; shift 2
SID=$ID-3
OUT=/tmp/seed3-out/$ID
D=seeded/$SID
mkdir -p $D
cp $OUT/patch.diff $OUT/demo.diff $OUT/demo_cmd.txt $OUT/notes.md $D/ 2>/dev/null
WT=/tmp/confirm3-$ID
git -C /repo worktree remove --force $WT 2>/dev/null
git -C /repo worktree add -q --detach $WT HEAD
( cd $WT
  R="seed $SID:"
  git apply $OUT/patch.diff && R="$R patch-applies" || R="$R PATCH-DOES-NOT-APPLY"
  cargo build --offline --bins >/dev/null 2>&1 && R="$R builds" || R="$R BUILD-FAILS"
  n=$(cargo test --offline 2>&1 | grep -E "^test result" | head -1)
  R="$R suite[$n]"
  [ -f $OUT/demo.diff ] && git apply $OUT/demo.diff
  DEMO=$(tail -1 $OUT/demo_cmd.txt 2>/dev/null)
  bash -c "$DEMO" > $OUT/confirm_with_patch.txt 2>&1; w=$?
  git apply -R $OUT/patch.diff
  bash -c "$DEMO" > $OUT/confirm_without_patch.txt 2>&1; wo=$?
  echo "$R demo-with-patch-exit=$w demo-without-patch-exit=$wo" ) | tee $D/confirmation.txt
git -C /repo worktree remove --force $WT
tools/seed_eval.sh $SID $PROP --tier quick "$@" 2>&1 | grep -aE "VIOLATION|seed=|INCONCLUSIVE|note:|undecided|FAIL" | cut -c1-300 | tee $D/evaluation.txt
