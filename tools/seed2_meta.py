#!/usr/bin/env python3
"""meta.json for the round-2 seeds (/verif/seeded/<id>-2)."""
import json, os, re
V = os.path.dirname(os.path.dirname(os.path.abspath(__file__)))
T = {
 "C01": (["C01"], "validate_midpoint accepts when [MIDP-RADI, MIDP+RADI] touches the delegation window", "a genuinely signed response with MIDP just outside [MINT, MAXT] and RADI >= the distance", "C01", "quick", "c01_window_signed_classic", "detected (exit 1). First attempt: c01_window_classic_d0 found it but did not reproduce natively (its arbitrary signature bytes are rejected by the real Ed25519 before acceptance) -> added c01_window_signed_*: honest reference responder with its own keys and an arbitrary window"),
 "C02": (["C02", "C09"], "make_response writes INDX big-endian", "any reply at batch position >= 1", "C02", "quick", "c09_pairing_ietf_k2_first_send_fails", "detected (exit 1). First attempt was 'vacuous' for C02 because the failing index assertion was tagged C09 only -> assertion ids may now name several properties (C09+C02)"),
 "C03": (["C03"], "validate_midpoint folded into a half-open range (mint..maxt)", "an honest response whose midpoint equals MAXT", "C03", "quick", "c03_honest_classic_d0", "detected (exit 1): midpoint is any u64 and the reference responder's MAXT is u64::MAX"),
 "C04": (["C04"], "root_from_paths drops its length assertion and uses chunks_exact", "a PATH with stray trailing bytes (length not a multiple of the hash size)", "C04", "quick", "c04_partial_google_n1_plus1", "detected (exit 1). Missed by the first harness set (only whole elements were appended) -> added c04_partial_* (1, 16, 63 extra bytes; a verifier panic counts as rejection). Kani printed the counterexample only under a cover's test (identical values are de-duplicated) -> the driver now tries the other generated tests natively"),
 "C05": (["C05"], "VERS and MINT swapped in the Tag enum declaration", "a message containing both VERS and MINT", "C05", "quick", "c05_tag_from_wire_all_words / c05_tag_order", "detected (exit 1)"),
 "C06": (["C06", "C08"], "len < 8 guard removed from single_tag_message", "the 4-byte input 01 00 00 00 (also as a nested value)", "C06", "quick", "c05_diff_n1_l4", "detected (exit 1), strict mode: slice index panic"),
 "C07": (["C07", "C08"], "size gate tests buf.len() instead of num_bytes", "any well-formed request shorter than 1024 bytes handed over in a larger buffer (as the server does)", "C07", "quick", "c07_gate_out_of_range", "detected (exit 1). First attempt did not reproduce natively at the *same* assertion (natively there are no Kani stubs, the zero buffer is rejected by the real parser, so the error-kind assertion fails instead) -> a native failure of another assertion of the same property in the same harness now counts"),
 "C08": (["C08", "C06"], "bytes_len - 8*num_tags computed before the header fit is known", "a count word larger than len/8 (debug builds: subtraction overflow panic)", "C08", "quick", "c05_diff_n1024_l16", "detected (exit 1) after adding C08 to the decoder family's properties"),
 "C09": (["C09", "C17"], "send loop breaks after the first failed send", "a batch of >= 2 where a send that is not the last fails", "C09", "quick", "c09_pairing_ietf_k2_first_send_fails", "detected (exit 1): pairing harness with the first send failing (added for this and the C17 seed)"),
 "C10": (["C10", "C02"], "DELE.MINT set to the wall clock at delegation time", "an IETF response whose clock reading is in an earlier second than the delegation (clock stepped back)", "C10", "quick", "c10_make_dele", "detected (exit 1) after giving the C10 harnesses a SystemTime::now stub (the unstubbed clock call was an unsupported construct)"),
 "C11": (["C11"], "rfc_midp computed through as_secs_f64().floor()", "IETF, sub-second part within the last ~120-480 ns of a second (f64 rounding)", "C11", "quick", "c11_srep_ietf", "detected (exit 1): the solver produced such a clock value (bit-precise floating point)"),
 "C12": (["C12"], "version scan stops at the first entry that compares greater than draft-13's wire bytes", "a VER list with such an entry before draft-13 within the first four", "C12", "quick", "c12_scan_k2", "detected (exit 1). The frame-level harness c12_ver_k2/k3 did not finish on the mutant (600 s) -> added c12_scan_*: get_supported_version on a message built through the API"),
 "C13": (["C13"], "update() swaps in a new buffer without copying when the capacity is exceeded", "a message fed in >= 2 chunks whose total exceeds 1024 bytes", "C13", "quick", "c13_signer_capacity_crossing", "detected (exit 1) after teaching the signature model to record long messages (length + first 160 bytes) and adding a 1024+1 shape"),
 "C14": (["C14"], "decrypt_seed rejects wrapped keys longer than 512 bytes", "a provider whose wrapped key is 513..1024 bytes", "C14", "thorough", "c14_roundtrip_p32_w600", "NOT detected: the 600-byte-wrapped-key round trip does not finish (harness-wide unwind 610 for the zero-fill loop); exit 0 with the harness listed as undecided. Wrapped keys above 48 bytes stay outside the claim"),
 "C16": (["C16"], "ROUGHENOUGH_FAULT_PERCENTAGE parsed as u16 and narrowed with `as u8`", "environment value 256..65535 whose low byte is <= 50", "C16", "quick", "c16_env_range_fault_percentage", "detected (exit 1) after adding environment harnesses with six symbolic decimal digits"),
 "C17": (["C17", "C09"], "bytes_sent/successful_send hoisted out of the send loop", "a batch where an earlier send fails and a later one succeeds", "C17", "quick", "c09_pairing_ietf_k2_first_send_fails", "detected (exit 1)"),
}
logs = "".join(open(f, errors="replace").read() for f in ("/var/tmp/seed2.log", "/var/tmp/seed3.log", "/var/tmp/seed4.log") if os.path.exists(f))
for sid, (props, change, needs, prop, tier, harness, outcome) in T.items():
    d = os.path.join(V, "seeded", sid + "-2")
    if not os.path.isdir(d):
        continue
    c = [l for l in logs.split("\n") if l.startswith("seed %s-2:" % sid)]
    demo = open(os.path.join(d, "demo_cmd.txt")).read().strip() if os.path.exists(os.path.join(d, "demo_cmd.txt")) else ""
    meta = {"seed": sid + "-2", "round": 2, "breaks_properties": props, "change": change, "needs_to_manifest": needs,
            "origin": "written by an independent sub-agent given only the property text, a scratch worktree of /repo and the instruction to avoid the round-1 idea",
            "demonstration": demo + " (after git apply demo.diff)",
            "confirmed_by_me": (c[-1] if c else "not confirmed"),
            "confirmation_procedure": "tools/seed2_run.sh: fresh worktree of /repo HEAD, git apply patch.diff, cargo build --bins, cargo test (47 pass), demonstration fails with the patch and passes after git apply -R",
            "evaluated_with": "tools/seed_eval.sh %s-2 %s --only %s (patch applied to a scratch copy of /repo's working tree via VERIF_REPO; /repo untouched)" % (sid, prop, harness.split(" ")[0]),
            "detected_by": {"property_check": prop, "tier": tier, "harness": harness, "result": outcome}}
    json.dump(meta, open(os.path.join(d, "meta.json"), "w"), indent=1)
    print(sid + "-2", outcome[:60], "|", "confirmed" if c else "UNCONFIRMED")
