#!/usr/bin/env python3
"""Regenerate /verif/MANIFEST.json from vlib/props.py (single source of truth)."""
import json, os, sys
V = os.path.dirname(os.path.dirname(os.path.abspath(__file__)))
sys.path.insert(0, os.path.join(V, "vlib"))
import props as P

checks = []
for pid in sorted(P.PROPS):
    s = P.PROPS[pid]
    checks.append({
        "property_id": pid,
        "quick_cmd": "./check %s --tier quick" % pid,
        "thorough_cmd": "./check %s --tier thorough" % pid,
        "evidence_file": "evidence/%s.json" % pid,
        "replay_cmd_template": "./check %s --replay {path}" % pid,
        "engine": s.get("engine", "kani-woven"),
        "level_claimed": {
            "category": "model_checking",
            "text": s.get("level_text", "Bounded symbolic model checking of the real functions: inside the stated shapes the SAT "
                                        "solver's UNSAT covers every value of the symbolic inputs; outside them nothing is claimed."),
            "design_ref": s.get("design_ref", "DESIGN.md section 5 (%s)" % pid),
        },
        "level_note": s.get("level_note", "Trusted: Kani's MIR-to-GOTO translation, CBMC, CaDiCaL; the environment model crates "
                                         "(/verif/shims) stand in for ring, ed25519-dalek and mio as documented in DESIGN.md section 2; "
                                         "bounds as written in the evidence file."),
        "technique": s.get("technique", "Kani/CBMC bounded model checking (SAT) of the compiled real code, symbolic inputs"),
    })

m = {
    "version": 1,
    "setup_cmd": "./setup.sh",
    "hooks": {
        "guard": "kani",
        "enable": "none needed: harness modules are appended to a scratch copy of /repo's working tree under #[cfg(kani)] / feature verif_replay; /repo carries no hooks",
        "baseline_off_cmd": "cd /repo && cargo test --workspace --no-fail-fast --offline",
        "source_commits": [],
        "add_only": True,
    },
    "engines": [
        {"name": "kani-woven", "path": "check", "serves_properties": sorted(P.PROPS),
         "kind_free_text": "Kani 0.68 / CBMC 6.11 over a scratch copy of /repo with harness modules appended to the source files "
                           "(private access, no function body edited) and crypto/OS crates replaced by model crates; counterexamples "
                           "are extracted with concrete playback and replayed natively against the real dependencies"},
    ],
    "checks": checks,
    "not_applicable": [{"property_id": k, "reason": v} for k, v in sorted(P.NOT_APPLICABLE.items()) if k not in P.PROPS],
    "notes": "See DESIGN.md. Exit codes of ./check: 0 held within bounds, 1 reproduced violation, 2 inconclusive.",
}
json.dump(m, open(os.path.join(V, "MANIFEST.json"), "w"), indent=1)
print("wrote MANIFEST.json with %d checks, %d not_applicable" % (len(checks), len(m["not_applicable"])))
