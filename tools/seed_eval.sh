#!/bin/bash
# usage: seed_eval.sh <seed-id> <property> [check args...]
# Evaluates a seeded change WITHOUT touching /repo: the patch is applied to a scratch copy of
# /repo's working tree and the check is pointed at it (VERIF_REPO), then the copy is removed.
set -u
cd "$(dirname "$0")/.."
SID=$1; PROP=$2; shift 2
M=/var/tmp/mut-$SID-$$
rm -rf $M; mkdir -p $M
rsync -a --exclude /target --exclude /.git /repo/ $M/
( cd $M && git init -q . && git apply --whitespace=nowarn /verif/seeded/$SID/patch.diff ) || { echo "patch does not apply"; rm -rf $M; exit 3; }
VERIF_REPO=$M VERIF_SCRATCH=/var/tmp/verif-scratch-seed-$SID ./check $PROP --no-evidence "$@"
rc=$?
rm -rf $M /var/tmp/verif-scratch-seed-$SID
echo "seed=$SID property=$PROP exit=$rc"
exit $rc
