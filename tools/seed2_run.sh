#!/bin/bash
# confirm and evaluate the round-2 seeds sequentially: seed2_run.sh "<ID> <PROP> <only>" ...
cd "$(dirname "$0")/.."
for spec in "$@"; do
  set -- $spec
  ID=$1; PROP=$2; ONLY=$3; TIER=${4:-quick}
  SID=$ID-2
  # --- confirm
  OUT=/tmp/seed2-out/$ID
  WT=/tmp/confirm2-$ID
  git -C /repo worktree remove --force $WT 2>/dev/null
  git -C /repo worktree add -q $WT HEAD
  ( cd $WT
    R="seed $SID:"
    git apply $OUT/patch.diff && R="$R patch-applies" || R="$R PATCH-DOES-NOT-APPLY"
    cargo build --offline --bins >/dev/null 2>&1 && R="$R builds" || R="$R BUILD-FAILS"
    n=$(cargo test --offline 2>&1 | grep -E "^test result" | head -1)
    R="$R suite[$n]"
    [ -f $OUT/demo.diff ] && git apply $OUT/demo.diff
    DEMO=$(cat $OUT/demo_cmd.txt 2>/dev/null | tail -1)
    bash -c "$DEMO" > $OUT/confirm_with_patch.txt 2>&1; w=$?
    git apply -R $OUT/patch.diff
    bash -c "$DEMO" > $OUT/confirm_without_patch.txt 2>&1; wo=$?
    echo "$R demo-with-patch-exit=$w demo-without-patch-exit=$wo" )
  git -C /repo worktree remove --force $WT
  # --- evaluate
  tools/seed_eval.sh $SID $PROP --tier $TIER --only $ONLY 2>&1 | grep -aE "VIOLATION|seed=|INCONCLUSIVE|note:|witness" | cut -c1-260
done
