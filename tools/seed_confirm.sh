#!/bin/bash
# usage: seed_confirm.sh <prop-id> "<demo command>"   (outputs of the sub-agent are in /tmp/seed-out/<id>)
# Confirms independently, in a fresh scratch worktree of /repo: the patch applies, the crate builds,
# the unedited test suite passes with it, the demonstration fails with it and passes without it.
set -u
ID=$1; DEMO=$2
OUT=/tmp/seed-out/$ID
WT=/tmp/confirm-$ID
git -C /repo worktree remove --force $WT 2>/dev/null
git -C /repo worktree add -q $WT HEAD || exit 2
cd $WT
R="seed $ID:"
git apply $OUT/patch.diff && R="$R patch-applies" || { echo "$R PATCH-DOES-NOT-APPLY"; exit 1; }
cargo build --offline --bins >/dev/null 2>&1 && R="$R builds" || R="$R BUILD-FAILS"
n=$(cargo test --offline 2>&1 | grep -E "^test result" | head -1)
R="$R suite[$n]"
[ -f $OUT/demo.diff ] && git apply $OUT/demo.diff
bash -c "$DEMO" > $OUT/confirm_with_patch.txt 2>&1; w=$?
git apply -R $OUT/patch.diff
bash -c "$DEMO" > $OUT/confirm_without_patch.txt 2>&1; wo=$?
R="$R demo-with-patch-exit=$w demo-without-patch-exit=$wo"
echo "$R"
cd /; git -C /repo worktree remove --force $WT
