#!/bin/bash
# usage: kprobe.sh <scratch> <harness-fqn> [timeout_s] [mem_kb]  -- development helper
S=$1; H=$2; T=${3:-300}; M=${4:-12000000}
cd $S || exit 2
L=/var/tmp/kprobe.$(echo $H | tr ':' '_').log
( ulimit -v $M; CARGO_NET_OFFLINE=true timeout $T cargo kani -Z stubbing -Z unstable-options --harness $H --exact ${KEXTRA} 2>&1 ) \
 | grep -v "register_tool\|^warning: use of\|^ -->\|^  |\|^1 |\|= note\|^$\|^warning: unused\|^warning: unexpected" > $L
echo "exit=${PIPESTATUS[0]}"
grep -E "^error|VERIFICATION|Verification Time|Runtime Symex|size of program|out of memory|Failed Checks|\*\* [0-9]+ of" $L | head -30
grep -B1 -A3 "Status: FAILURE\|Status: UNDETERMINED\|Status: UNSATISFIABLE" $L | grep -E "Check|Status|Description" | head -40
awk '/Runtime decision procedure/ {s+=$4} END {print "solver_s=" s}' $L
echo "log: $L"
