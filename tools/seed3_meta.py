#!/usr/bin/env python3
"""meta.json for the round-3 seeds (/verif/seeded/<id>-3); confirmation.txt / evaluation.txt are written by seed3_run.sh."""
import json, os
V = os.path.dirname(os.path.dirname(os.path.abspath(__file__)))
T = {
 "C05": (["C05", "C06"], "multi_tag_message slices each value by start + saturating length; the start > end rejection is gone", "a message of >= 3 tags whose offset table decreases (e.g. offsets [8,4]), still aligned and in range", "quick", "c05_diff_n3_l32", "detected (exit 1): the differential decoder harness (3 tags, 32 bytes, every byte but the count word symbolic) found a decreasing table; reproduced natively"),
 "C12": (["C12", "C07"], "get_supported_version accepts any version number the code knows (find_map(Version::from_wire)), incl. the classic version 0", "a framed request whose VER list has 0 before (or without) draft-13", "quick", "c12_ver_k1 (also c12_ver_k2/k3/k5, c12_scan_k1/k2/k4/k6)", "detected (exit 1): symbolic version words; reproduced natively"),
 "C13": (["C13"], "MsgVerifier::verify calls verify_strict", "a small-order public key or R (e.g. key = identity point, R = identity, S = 0), which plain RFC 8032 verification accepts", "quick", "c13_verifier_3chunks (also c13_verifier_empty, _prefix_payload, _weak_key)", "first run: exit 2 (inconclusive) -- the signature model crate had no verify_strict, so the mutant did not compile against it. Strengthened: the model gained verify_strict (plain verdict, recorded, plus rejection of the identity encoding as A or R -- an under-approximation of strictness), the RFC 8032 fact that (A = identity, R = identity, S = 0) verifies for every message, and the harness c13_verifier_weak_key (that triple, symbolic message). Second run: detected (exit 1); the solver chose exactly the weak triple in the fully symbolic c13_verifier_3chunks and it reproduced against the real ed25519-dalek"),
 "C14": (["C14"], "decrypt_seed copies the unwrapped data key into a [u8; 32] with copy_from_slice before UnboundKey::new", "a provider returning a data key of another length (or a tampered wrapped-length low byte with a length-preserving provider): panic instead of an error", "quick", "c14_fault_short_key, c14_fault_long_key", "detected (exit 1), strict mode: copy_from_slice length panic; reproduced natively"),
 "C16": (["C16"], "batch_size / fault_percentage / num_workers read with `if let Some(v) = value.as_i64()` instead of unwrap()", "one of those settings written as a non-integer scalar (quoted \"16\", float 75.0): silently replaced by the default instead of a refused start", "quick", "c16_nonint_batch_size_str, c16_nonint_fault_percentage_str, c16_nonint_num_workers_str, c16_nonint_*_real", "first run: NOT detected (exit 0) -- every document of the loader harnesses held integer scalars. Strengthened: the YAML model gained float scalars, and the family c16_nonint writes one integer setting as a quoted one-digit string or as d.0 (digit symbolic) and asserts 'refused, or taken at the written value'. Second run: detected (exit 1) by five c16_nonint harnesses; c16_nonint_batch_size_str reproduced natively against the real yaml-rust (a real file with batch_size: \"d\")"),
}
for sid, (props, change, needs, tier, harness, outcome) in T.items():
    d = os.path.join(V, "seeded", sid + "-3")
    if not os.path.isdir(d):
        continue
    rd = lambda n: open(os.path.join(d, n)).read().strip() if os.path.exists(os.path.join(d, n)) else ""
    meta = {"seed": sid + "-3", "round": 3, "breaks_properties": props, "change": change, "needs_to_manifest": needs,
            "origin": "written by an independent sub-agent given only the property text (statement + code anchors), its own scratch worktree of /repo and the instruction to avoid the round-1/2 ideas; nothing from /verif",
            "demonstration": rd("demo_cmd.txt").split("\n")[-1] + " (after git apply demo.diff)",
            "confirmed_by_me": rd("confirmation.txt") or "not confirmed",
            "confirmation_procedure": "tools/seed3_run.sh: fresh worktree of /repo HEAD, git apply patch.diff, cargo build --bins, cargo test (47 pass), demonstration fails with the patch and passes after git apply -R; worktree removed",
            "evaluated_with": "tools/seed_eval.sh %s-3 %s --tier quick (patch applied to a scratch copy of /repo's working tree via VERIF_REPO; /repo untouched)" % (sid, sid),
            "evaluation_output": rd("evaluation.txt").split("\n"),
            "detected_by": {"property_check": sid, "tier": tier, "harness": harness, "result": outcome}}
    json.dump(meta, open(os.path.join(d, "meta.json"), "w"), indent=1)
    print(sid + "-3", outcome[:70])
