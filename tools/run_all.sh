#!/bin/bash
# development helper: run every claimed check of a tier sequentially, log exit codes
cd "$(dirname "$0")/.."
TIER=${1:-quick}
shift
IDS=${@:-$(python3 -c "import sys; sys.path.insert(0,'vlib'); import props; print(' '.join(sorted(props.PROPS)))")}
for id in $IDS; do
  s=$(date +%s)
  ./check $id --tier $TIER > /var/tmp/runall.$TIER.$id.out 2>&1
  rc=$?
  echo "$id rc=$rc wall=$(( $(date +%s) - s ))s" | tee -a /var/tmp/runall.summary
done
