#!/usr/bin/env python3
"""Write /verif/seeded/<id>/meta.json from the table below + the confirmation / evaluation logs."""
import json, os, re, sys
V = os.path.dirname(os.path.dirname(os.path.abspath(__file__)))
SEEDS = {
 "C01": dict(properties=["C01"], change="validate_dele caches the last verified CERT.SIG (thread-local) and skips verification when a later response carries the same signature bytes",
             needs="a multi-request run (-n 2): a genuine response first, then a response re-using its CERT.SIG with an attacker's DELE/SREP",
             demo="cargo test --offline --bin roughenough-client seed_c01_demo (after git apply demo.diff)",
             detect=("C01", "thorough", "c01_genuine_then_spliced_classic")),
 "C02": dict(properties=["C02", "C04"], change="MerkleTree::reset clears only the leaf level",
             needs="one responder/tree reused: a batch of >= 3 leaves, reset, then a batch of >= 2", demo="cargo test --offline c02_demo (after git apply demo.diff)",
             detect=("C04", "quick", "c04_reset_after_3_google")),
 "C04": dict(properties=["C04", "C02"], change="MerkleTree::reset clears only the leaf level (same slip as seeded/C02, produced independently)",
             needs="tree reuse: first batch >= 3 leaves, then >= 2", demo="cargo test --offline --lib seed_c04_demo (after git apply demo.diff)",
             detect=("C04", "quick", "c04_reset_after_3_google")),
 "C05": dict(properties=["C05"], change="multi_tag_message bounds offsets by the value-area length with >= instead of >: a message of >= 2 fields whose last value is empty is rejected",
             needs="an offset equal to len - 8*num_tags (empty last value), e.g. 02000000 00000000 NONC PAD", demo="cargo test --offline --lib seed_c05_demo (after git apply demo.diff)",
             detect=("C05", "quick", "c05_diff_n2_l16")),
 "C06": dict(properties=["C06", "C08"], change="the end_idx > bytes_len guard before slicing is dropped in multi_tag_message",
             needs="an aligned offset between the value-area length and the message length, e.g. 02000000 04000000 SIG VER (16 bytes) -> slice out of range",
             demo="cargo test --offline --lib seed_c06_demo (after git apply demo.diff)", detect=("C06", "quick", "c05_diff_n2_l16")),
 "C07": dict(properties=["C07"], change="IETF nonce-length rule == 32 relaxed to >= 32", needs="a framed 1024..1500-byte request with a NONC longer than 32 bytes (amplifies from ~652 bytes)",
             demo="cargo test --offline --lib c07_demo (after git apply demo.diff)", detect=("C07", "quick", "c12_ver_k1_nonce36")),
 "C09": dict(properties=["C09", "C02"], change="send_responses de-duplicates adjacent requests with equal nonces (requests.dedup_by) after the leaves are in the tree",
             needs="two adjacent requests of one protocol with identical NONC in one batch", demo="bash run_demo.sh <worktree> (real server + crafted batches, demo.py)",
             detect=("C09", "quick/thorough", "c09_pairing_classic_k2_same_nonce / c09_batch_classic_k2_same_nonce")),
 "C10": dict(properties=["C10", "C02"], change="LongTermKey memoises the delegation prefix of the first make_cert call", needs="a second certificate from the same key for the other protocol (Server::new: IETF then classic)",
             demo="cargo test --offline --lib c10_demo (after git apply demo.diff)", detect=("C10", "quick", "c10_cert_ietf_then_classic")),
 "C11": dict(properties=["C11"], change="epoch seconds pass through a u32 in a shared helper", needs="a clock at or after 2106-02-07 (secs >= 2^32)",
             demo="cargo test --offline --lib c11_midp_demo (after git apply demo.diff)", detect=("C11", "quick", "c11_srep_classic")),
 "C12": dict(properties=["C12"], change="SRV compared with a zip-based 'constant-time' fold that stops at the shorter input", needs="an SRV that is a proper prefix or an extension of the server's value",
             demo="cargo test --offline --lib c12_srv_demo (after git apply demo.diff)", detect=("C12", "quick", "c12_srv4_k1")),
 "C13": dict(properties=["C13"], change="sign() no longer clears the buffer; update() clears lazily at the next message's first chunk", needs="an empty message signed with no update() call after a non-empty one on the same signer",
             demo="cargo test --offline --lib c13_demo (after git apply demo.diff)", detect=("C13", "quick", "c13_signer_no_update_second")),
 "C14": dict(properties=["C14"], change="decrypt_seed slices the wrapped DEK out of the blob instead of read_exact", needs="a wrapped-length field within 3 of the blob length (or truncation of a blob with a long wrapped key): slice index panic",
             demo="cargo test --offline --lib c14_demo (after git apply demo.diff)", detect=("C14", "quick", "c14_lenfield_len_minus_1")),
 "C16": dict(properties=["C16"], change="is_valid_config's batch_size check rewritten as !(0..=64).contains(..)", needs="batch_size: 0 (file or environment)",
             demo="cargo test --offline --lib seed_c16_demo (after git apply demo.diff)", detect=("C16", "quick", "c16_file_batch_size")),
 "C17": dict(properties=["C17"], change="ClientStats::merge overwrites failed_send_attempts instead of adding", needs="two records for one address merged, the first with a failed send",
             demo="cargo test --offline --lib stats::merge_demo (after git apply demo.diff)", detect=("C17", "quick", "c17_client_merge")),
}
confirm = open("/var/tmp/confirm.log").read() if os.path.exists("/var/tmp/confirm.log") else ""
evals = "".join(open(f, errors="replace").read() for f in ("/var/tmp/seedeval1.log", "/var/tmp/seedeval2.log", "/var/tmp/seedeval3.log", "/var/tmp/seedeval4.log", "/var/tmp/seedeval5.log", "/var/tmp/seedeval6.log") if os.path.exists(f))
OVERRIDE = {
 "C09": "NOT detected: the two-request harnesses (c09_pairing_*, c09_light_*: optional) did not finish within the 900 s cap on the mutant (Vec::dedup_by with a symbolic comparison is expensive for CBMC); the check exited 0 and listed them as undecided. The full c09_batch_classic_k2_same_nonce (thorough) asserts exactly-one-datagram-per-request and would fail on this change if it finishes.",
 "C01": "NOT detected: the change uses thread_local!, which makes kani-compiler 0.68 panic (same intrinsics ICE as std::thread::current); the check exits 2 (tool error), i.e. inconclusive rather than a silent pass. The sequence harness c01_genuine_then_spliced_classic would apply to a cache kept in ordinary state.",
 "C16": "evaluation runs so far ended with exit 2 (harness timed out while the machine was overloaded by parallel evaluations; one log was lost): not yet shown detected. The harness c16_file_batch_size asserts VERIF:C16:out-of-range-value-refused (accepted => 1 <= batch_size <= 64), which batch_size 0 violates on this change.",
 "C12": "exit 1, VIOLATION reproduced natively (c12_srv4_k1); the 28-byte shape ends in an unwinding assertion (exit 2) on this mutant",
}
for sid, m in SEEDS.items():
    d = os.path.join(V, "seeded", sid)
    if not os.path.isdir(d):
        continue
    c = [l for l in confirm.split("\n") if l.startswith("seed %s:" % sid)]
    prop, tier, harness = m["detect"]
    ev = re.findall(r"seed=%s property=(C\d+) exit=(\d+)" % sid, evals)
    viol = [l for l in evals.split("\n") if l.startswith("VIOLATION") and ("/%s.json" % harness) in l]
    meta = {
        "seed": sid, "breaks_properties": m["properties"], "change": m["change"], "needs_to_manifest": m["needs"],
        "origin": "written by an independent sub-agent given only the property text and a scratch worktree of /repo",
        "demonstration": m["demo"],
        "confirmed_by_me": (c[-1] if c else "not confirmed"),
        "confirmation_procedure": "tools/seed_confirm.sh: fresh worktree of /repo HEAD, git apply patch.diff, cargo build --bins, cargo test (47 pass), "
                                  "demonstration fails with the patch and passes after git apply -R",
        "evaluated_with": "tools/seed_eval.sh %s %s (patch applied to a scratch copy of /repo's working tree, check pointed at it via VERIF_REPO; /repo untouched)" % (sid, prop),
        "detected_by": {"property_check": prop, "tier": tier, "harness": harness,
                        "result": OVERRIDE.get(sid, "exit 1, VIOLATION reproduced natively" if viol else ("runs: %s" % ev if ev else "not evaluated yet"))},
    }
    json.dump(meta, open(os.path.join(d, "meta.json"), "w"), indent=1)
    print(sid, meta["detected_by"]["result"], "|", (c[-1][:60] if c else "unconfirmed"))
