//! Container model for `std::collections::HashMap` as used by roughenough's client
//! (`RtMessage::into_hash_map`, `map[&key]`, `get`): an association list with the same
//! observable behaviour (last insert wins, lookup by `Eq`).  CBMC does not get through the
//! real SipHash-based table (no result in 500 s for three keys, see DESIGN.md section 3).
//! With feature `native` this crate re-exports the real std type, so a replay runs the
//! unmodified container.

#[cfg(feature = "native")]
pub use std::collections::HashMap;

#[cfg(not(feature = "native"))]
pub use model::HashMap;

#[cfg(not(feature = "native"))]
mod model {
    use std::borrow::Borrow;
    use std::ops::Index;

    #[derive(Clone, Debug)]
    pub struct HashMap<K, V> {
        items: Vec<(K, V)>,
    }

    /// Entries are kept in insertion order in a vector allocated once (capacity 8: a response has
    /// six fields; growing a vector costs CBMC a symbolic-size copy).  `insert` appends and lookups
    /// scan from the newest entry, which is exactly "the last insert for a key wins".
    impl<K: Eq, V> HashMap<K, V> {
        pub fn new() -> Self {
            HashMap { items: Vec::with_capacity(8) }
        }
        pub fn with_capacity(n: usize) -> Self {
            HashMap { items: Vec::with_capacity(if n < 8 { 8 } else { n }) }
        }
        pub fn is_empty(&self) -> bool {
            self.items.is_empty()
        }
        pub fn insert(&mut self, k: K, v: V) {
            self.items.push((k, v));
        }
        pub fn get<Q: ?Sized>(&self, k: &Q) -> Option<&V>
        where
            K: Borrow<Q>,
            Q: Eq,
        {
            let mut i = self.items.len();
            while i > 0 {
                i -= 1;
                if self.items[i].0.borrow() == k {
                    return Some(&self.items[i].1);
                }
            }
            None
        }
        pub fn contains_key<Q: ?Sized>(&self, k: &Q) -> bool
        where
            K: Borrow<Q>,
            Q: Eq,
        {
            self.get(k).is_some()
        }
    }

    impl<K: Eq, V> Default for HashMap<K, V> {
        fn default() -> Self {
            Self::new()
        }
    }

    impl<K: Eq, V> FromIterator<(K, V)> for HashMap<K, V> {
        fn from_iter<I: IntoIterator<Item = (K, V)>>(iter: I) -> Self {
            let mut m = HashMap::new();
            for (k, v) in iter {
                m.insert(k, v);
            }
            m
        }
    }

    impl<K, Q: ?Sized, V> Index<&Q> for HashMap<K, V>
    where
        K: Eq + Borrow<Q>,
        Q: Eq,
    {
        type Output = V;
        fn index(&self, key: &Q) -> &V {
            self.get(key).expect("no entry found for key")
        }
    }
}
