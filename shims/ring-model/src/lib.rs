//! Environment model of the parts of `ring` that roughenough uses.
//!
//! * under Kani (`cfg(kani)`): SHA-512 is an uninterpreted function realised as a
//!   table (Ackermann reduction at run time), `SystemRandom::fill` yields arbitrary
//!   bytes, AES-256-GCM is an ideal AEAD.
//! * with feature `native`: everything delegates to the real `ring`, while the
//!   recording side tables keep working, so a counterexample found under the model
//!   can be replayed against the real cryptography.
#![allow(clippy::all)]

#[cfg(kani)]
extern crate kani;

pub mod error {
    #[derive(Debug, Clone, Copy, PartialEq, Eq)]
    pub struct Unspecified;
    impl core::fmt::Display for Unspecified {
        fn fmt(&self, f: &mut core::fmt::Formatter) -> core::fmt::Result {
            f.write_str("ring::error::Unspecified")
        }
    }
    impl std::error::Error for Unspecified {}
}

/// Loop-free helpers shared by the models (CBMC executes Rust loops at ~100
/// iterations per second; byte-wise loops in model code would dominate).
pub mod blk {
    /// Number of 16-byte blocks in a model key.
    pub const KB: usize = 10;
    /// Maximum number of input bytes a model key can hold.
    pub const KMAX: usize = KB * 16;

    #[derive(Clone, Copy)]
    pub struct Key {
        pub w: [u128; KB],
        pub len: usize,
    }

    impl Key {
        pub const ZERO: Key = Key { w: [0; KB], len: 0 };

        /// Build from up to KMAX bytes (zero padded).
        pub fn from_bytes(b: &[u8]) -> Key {
            assert!(b.len() <= KMAX, "VERIF-ENV: model key overflow");
            let mut raw = [0u8; KMAX];
            // single memcpy; no Rust-level byte loop
            raw[..b.len()].copy_from_slice(b);
            let w: [u128; KB] = unsafe { core::mem::transmute(raw) };
            Key { w, len: b.len() }
        }

        #[inline]
        pub fn eq(&self, o: &Key) -> bool {
            // straight-line compare, no loop
            self.len == o.len
                && self.w[0] == o.w[0]
                && self.w[1] == o.w[1]
                && self.w[2] == o.w[2]
                && self.w[3] == o.w[3]
                && self.w[4] == o.w[4]
                && self.w[5] == o.w[5]
                && self.w[6] == o.w[6]
                && self.w[7] == o.w[7]
                && self.w[8] == o.w[8]
                && self.w[9] == o.w[9]
        }

        pub fn bytes(&self) -> [u8; KMAX] {
            unsafe { core::mem::transmute(self.w) }
        }
    }

    #[inline]
    pub fn eq64(a: &[u8; 64], b: &[u8; 64]) -> bool {
        let x: [u128; 4] = unsafe { core::mem::transmute(*a) };
        let y: [u128; 4] = unsafe { core::mem::transmute(*b) };
        x[0] == y[0] && x[1] == y[1] && x[2] == y[2] && x[3] == y[3]
    }

    #[inline]
    pub fn eq32(a: &[u8; 32], b: &[u8; 32]) -> bool {
        let x: [u128; 2] = unsafe { core::mem::transmute(*a) };
        let y: [u128; 2] = unsafe { core::mem::transmute(*b) };
        x[0] == y[0] && x[1] == y[1]
    }
}

pub mod digest {
    use super::blk::{self, Key};

    pub struct Algorithm {
        output_len: usize,
    }

    impl Algorithm {
        pub fn output_len(&self) -> usize {
            self.output_len
        }
    }

    pub static SHA512: Algorithm = Algorithm { output_len: 64 };
    pub const SHA512_OUTPUT_LEN: usize = 64;

    /// Maximum number of distinct hash queries recorded in one run.
    pub const HMAX: usize = 24;

    /// One recorded query H(input) = output.
    #[derive(Clone, Copy)]
    pub struct Query {
        pub input: Key,
        pub output: [u8; 64],
        /// for inputs longer than the key capacity only the total length and the
        /// first KMAX bytes are recorded (`long == true`)
        pub long: bool,
    }

    pub struct Log {
        pub n: usize,
        pub q: [Query; HMAX],
        /// assume collision freeness on the recorded queries
        pub injective: bool,
        /// number of finish() calls (including repeats)
        pub calls: usize,
    }

    pub static mut LOG: Log = Log {
        n: 0,
        q: [Query { input: Key::ZERO, output: [0; 64], long: false }; HMAX],
        injective: false,
        calls: 0,
    };

    /// Reset the model (call at the start of a harness).
    pub fn model_reset(injective: bool) {
        unsafe {
            LOG.n = 0;
            LOG.calls = 0;
            LOG.injective = injective;
        }
    }

    pub fn model_log() -> &'static Log {
        unsafe { &*core::ptr::addr_of!(LOG) }
    }

    /// The model's answer for `input` (recording it when new).
    pub fn model_hash(input: &[u8]) -> [u8; 64] {
        unsafe {
            let log = &mut *core::ptr::addr_of_mut!(LOG);
            log.calls += 1;
            let long = input.len() > blk::KMAX;
            let key = if long {
                let mut k = Key::from_bytes(&input[..blk::KMAX]);
                k.len = input.len();
                k
            } else {
                Key::from_bytes(input)
            };
            let mut i = 0;
            while i < log.n {
                if log.q[i].input.eq(&key) && !long && !log.q[i].long {
                    return log.q[i].output;
                }
                i += 1;
            }
            let out = fresh_output(input);
            if log.injective {
                // the all-zero value is what the tree pads odd levels with: a hash output equal to it
                // would be a preimage of a fixed constant (assumed away together with collisions)
                assume(!blk::eq64(&out, &[0u8; 64]));
                let z32: [u8; 32] = out[..32].try_into().unwrap();
                assume(!blk::eq32(&z32, &[0u8; 32]));
                let mut j = 0;
                while j < log.n {
                    assume(!blk::eq64(&log.q[j].output, &out));
                    // IETF profile compares 32-byte truncations: assume those differ too
                    let a: [u8; 32] = log.q[j].output[..32].try_into().unwrap();
                    let b: [u8; 32] = out[..32].try_into().unwrap();
                    assume(!blk::eq32(&a, &b));
                    j += 1;
                }
            }
            assert!(log.n < HMAX, "VERIF-ENV: hash model table full");
            log.q[log.n] = Query { input: key, output: out, long };
            log.n += 1;
            out
        }
    }

    #[cfg(kani)]
    fn fresh_output(_input: &[u8]) -> [u8; 64] {
        kani::any()
    }
    #[cfg(kani)]
    fn assume(c: bool) {
        kani::assume(c)
    }

    #[cfg(all(not(kani), feature = "native"))]
    fn fresh_output(input: &[u8]) -> [u8; 64] {
        let d = ring_real::digest::digest(&ring_real::digest::SHA512, input);
        let mut o = [0u8; 64];
        o.copy_from_slice(d.as_ref());
        o
    }
    #[cfg(all(not(kani), not(feature = "native")))]
    fn fresh_output(_input: &[u8]) -> [u8; 64] {
        panic!("ring-model built without kani and without feature native")
    }
    #[cfg(not(kani))]
    fn assume(_c: bool) {}

    pub struct Context {
        algorithm: &'static Algorithm,
        buf: Vec<u8>,
    }

    impl Context {
        pub fn new(algorithm: &'static Algorithm) -> Context {
            Context { algorithm, buf: Vec::new() }
        }

        pub fn update(&mut self, data: &[u8]) {
            self.buf.extend_from_slice(data);
        }

        pub fn finish(self) -> Digest {
            let value = model_hash(&self.buf);
            Digest { value, algorithm: self.algorithm }
        }

        pub fn algorithm(&self) -> &'static Algorithm {
            self.algorithm
        }
    }

    #[derive(Clone, Copy)]
    pub struct Digest {
        value: [u8; 64],
        algorithm: &'static Algorithm,
    }

    impl Digest {
        pub fn algorithm(&self) -> &'static Algorithm {
            self.algorithm
        }
    }

    impl AsRef<[u8]> for Digest {
        fn as_ref(&self) -> &[u8] {
            &self.value[..self.algorithm.output_len]
        }
    }

    pub fn digest(algorithm: &'static Algorithm, data: &[u8]) -> Digest {
        let mut ctx = Context::new(algorithm);
        ctx.update(data);
        ctx.finish()
    }
}

pub mod rand {
    use super::error::Unspecified;

    pub struct Tape {
        pub calls: usize,
        pub scripted: bool,
        pub data: [u8; 128],
        pub pos: usize,
    }

    pub static mut TAPE: Tape = Tape { calls: 0, scripted: false, data: [0; 128], pos: 0 };

    /// Reset the model. With `script = Some(bytes)` successive `fill` calls consume
    /// the script (so the harness owns the "random" values as inputs).
    pub fn model_reset(script: Option<&[u8]>) {
        unsafe {
            let t = &mut *core::ptr::addr_of_mut!(TAPE);
            t.calls = 0;
            t.pos = 0;
            t.scripted = false;
            if let Some(s) = script {
                assert!(s.len() <= 128, "VERIF-ENV: random tape too long");
                t.data[..s.len()].copy_from_slice(s);
                t.scripted = true;
            }
        }
    }

    pub fn model_calls() -> usize {
        unsafe { (*core::ptr::addr_of!(TAPE)).calls }
    }

    pub trait SecureRandom {
        fn fill(&self, dest: &mut [u8]) -> Result<(), Unspecified>;
    }

    #[derive(Clone, Debug)]
    pub struct SystemRandom(());

    impl SystemRandom {
        pub fn new() -> SystemRandom {
            SystemRandom(())
        }
    }

    impl SecureRandom for SystemRandom {
        fn fill(&self, dest: &mut [u8]) -> Result<(), Unspecified> {
            unsafe {
                let t = &mut *core::ptr::addr_of_mut!(TAPE);
                t.calls += 1;
                if t.scripted {
                    assert!(t.pos + dest.len() <= 128, "VERIF-ENV: random tape exhausted");
                    dest.copy_from_slice(&t.data[t.pos..t.pos + dest.len()]);
                    t.pos += dest.len();
                    return Ok(());
                }
            }
            fill_unscripted(dest)
        }
    }

    #[cfg(kani)]
    fn fill_unscripted(dest: &mut [u8]) -> Result<(), Unspecified> {
        // arbitrary bytes: one nondeterministic block, copied (no byte loop)
        assert!(dest.len() <= 64, "VERIF-ENV: unscripted fill > 64 bytes");
        let block: [u8; 64] = kani::any();
        let n = dest.len();
        dest.copy_from_slice(&block[..n]);
        Ok(())
    }

    #[cfg(all(not(kani), feature = "native"))]
    fn fill_unscripted(dest: &mut [u8]) -> Result<(), Unspecified> {
        use ring_real::rand::SecureRandom as _;
        ring_real::rand::SystemRandom::new().fill(dest).map_err(|_| Unspecified)
    }

    #[cfg(all(not(kani), not(feature = "native")))]
    fn fill_unscripted(_dest: &mut [u8]) -> Result<(), Unspecified> {
        panic!("ring-model built without kani and without feature native")
    }
}

pub mod aead {
    use super::error::Unspecified;

    pub struct Algorithm {
        key_len: usize,
    }
    pub static AES_256_GCM: Algorithm = Algorithm { key_len: 32 };
    pub const NONCE_LEN: usize = 12;
    pub const MAX_TAG_LEN: usize = 16;

    pub struct UnboundKey {
        key: [u8; 32],
    }

    impl UnboundKey {
        pub fn new(algorithm: &'static Algorithm, key_bytes: &[u8]) -> Result<Self, Unspecified> {
            if key_bytes.len() != algorithm.key_len {
                return Err(Unspecified);
            }
            let mut key = [0u8; 32];
            key.copy_from_slice(key_bytes);
            Ok(UnboundKey { key })
        }
    }

    pub struct Nonce([u8; NONCE_LEN]);
    impl Nonce {
        pub fn assume_unique_for_key(value: [u8; NONCE_LEN]) -> Self {
            Nonce(value)
        }
        pub fn try_assume_unique_for_key(value: &[u8]) -> Result<Self, Unspecified> {
            let v: [u8; NONCE_LEN] = value.try_into().map_err(|_| Unspecified)?;
            Ok(Nonce(v))
        }
    }

    pub struct Aad<A>(A);
    impl<A: AsRef<[u8]>> Aad<A> {
        pub fn from(aad: A) -> Self {
            Aad(aad)
        }
    }
    impl Aad<[u8; 0]> {
        pub fn empty() -> Self {
            Aad([])
        }
    }

    pub struct LessSafeKey {
        key: [u8; 32],
    }

    /// Maximum plaintext length the ideal-AEAD record can hold.
    pub const PMAX: usize = 64;
    pub const AMAX: usize = 16;

    #[derive(Clone, Copy)]
    pub struct Sealed {
        pub used: bool,
        pub key: [u8; 32],
        pub nonce: [u8; NONCE_LEN],
        pub aad: [u8; AMAX],
        pub aad_len: usize,
        pub pt: [u8; PMAX],
        pub pt_len: usize,
        /// ciphertext || tag
        pub ct: [u8; PMAX + 16],
    }

    pub static mut SEALED: Sealed = Sealed {
        used: false,
        key: [0; 32],
        nonce: [0; NONCE_LEN],
        aad: [0; AMAX],
        aad_len: 0,
        pt: [0; PMAX],
        pt_len: 0,
        ct: [0; PMAX + 16],
    };

    pub fn model_reset() {
        unsafe {
            (*core::ptr::addr_of_mut!(SEALED)).used = false;
        }
    }
    pub fn model_sealed() -> &'static Sealed {
        unsafe { &*core::ptr::addr_of!(SEALED) }
    }

    impl LessSafeKey {
        pub fn new(key: UnboundKey) -> Self {
            LessSafeKey { key: key.key }
        }

        pub fn seal_in_place_append_tag<A, InOut>(
            &self,
            nonce: Nonce,
            aad: Aad<A>,
            in_out: &mut InOut,
        ) -> Result<(), Unspecified>
        where
            A: AsRef<[u8]>,
            InOut: AsMut<[u8]> + for<'in_out> Extend<&'in_out u8>,
        {
            seal_impl(&self.key, &nonce.0, aad.0.as_ref(), in_out)
        }

        pub fn open_in_place<'in_out, A>(
            &self,
            nonce: Nonce,
            aad: Aad<A>,
            in_out: &'in_out mut [u8],
        ) -> Result<&'in_out mut [u8], Unspecified>
        where
            A: AsRef<[u8]>,
        {
            open_impl(&self.key, &nonce.0, aad.0.as_ref(), in_out)
        }
    }

    // ---------------------------------------------------------------- kani: ideal AEAD
    #[cfg(kani)]
    fn seal_impl<InOut>(
        key: &[u8; 32],
        nonce: &[u8; NONCE_LEN],
        aad: &[u8],
        in_out: &mut InOut,
    ) -> Result<(), Unspecified>
    where
        InOut: AsMut<[u8]> + for<'in_out> Extend<&'in_out u8>,
    {
        unsafe {
            let s = &mut *core::ptr::addr_of_mut!(SEALED);
            assert!(!s.used, "VERIF-ENV: ideal AEAD records a single seal");
            let pt = in_out.as_mut();
            let n = pt.len();
            assert!(n <= PMAX, "VERIF-ENV: ideal AEAD plaintext too long");
            assert!(aad.len() <= AMAX, "VERIF-ENV: ideal AEAD aad too long");
            s.used = true;
            s.key = *key;
            s.nonce = *nonce;
            s.aad = [0; AMAX];
            s.aad[..aad.len()].copy_from_slice(aad);
            s.aad_len = aad.len();
            s.pt = [0; PMAX];
            s.pt[..n].copy_from_slice(pt);
            s.pt_len = n;
            let ct: [u8; PMAX + 16] = kani::any();
            s.ct = ct;
            pt.copy_from_slice(&ct[..n]);
            let tag: [u8; 16] = ct[n..n + 16].try_into().unwrap();
            in_out.extend(tag.iter());
            Ok(())
        }
    }

    #[cfg(kani)]
    fn open_impl<'a>(
        key: &[u8; 32],
        nonce: &[u8; NONCE_LEN],
        aad: &[u8],
        in_out: &'a mut [u8],
    ) -> Result<&'a mut [u8], Unspecified> {
        unsafe {
            let s = &*core::ptr::addr_of!(SEALED);
            if in_out.len() < 16 {
                return Err(Unspecified);
            }
            let n = in_out.len() - 16;
            // ideal: succeeds only on exactly what was sealed, under the same key, nonce, aad
            if !s.used || n != s.pt_len || aad.len() != s.aad_len {
                return Err(Unspecified);
            }
            let mut a = [0u8; AMAX];
            a[..aad.len()].copy_from_slice(aad);
            let mut c = [0u8; PMAX + 16];
            c[..n + 16].copy_from_slice(in_out);
            let mut want = [0u8; PMAX + 16];
            want[..n + 16].copy_from_slice(&s.ct[..n + 16]);
            // loop-free comparisons (an 80-byte array == is an 80-iteration memcmp loop in CBMC)
            let cw: [u128; 5] = core::mem::transmute(c);
            let ww: [u128; 5] = core::mem::transmute(want);
            let same_ct = cw[0] == ww[0] && cw[1] == ww[1] && cw[2] == ww[2] && cw[3] == ww[3] && cw[4] == ww[4];
            let same = super::blk::eq32(key, &s.key) && *nonce == s.nonce && a == s.aad && same_ct;
            if !same {
                return Err(Unspecified);
            }
            in_out[..n].copy_from_slice(&s.pt[..n]);
            Ok(&mut in_out[..n])
        }
    }

    // ---------------------------------------------------------------- native: real ring
    #[cfg(all(not(kani), feature = "native"))]
    fn seal_impl<InOut>(
        key: &[u8; 32],
        nonce: &[u8; NONCE_LEN],
        aad: &[u8],
        in_out: &mut InOut,
    ) -> Result<(), Unspecified>
    where
        InOut: AsMut<[u8]> + for<'in_out> Extend<&'in_out u8>,
    {
        use ring_real::aead as r;
        let k = r::LessSafeKey::new(r::UnboundKey::new(&r::AES_256_GCM, key).map_err(|_| Unspecified)?);
        k.seal_in_place_append_tag(r::Nonce::assume_unique_for_key(*nonce), r::Aad::from(aad), in_out)
            .map_err(|_| Unspecified)
    }

    #[cfg(all(not(kani), feature = "native"))]
    fn open_impl<'a>(
        key: &[u8; 32],
        nonce: &[u8; NONCE_LEN],
        aad: &[u8],
        in_out: &'a mut [u8],
    ) -> Result<&'a mut [u8], Unspecified> {
        use ring_real::aead as r;
        let k = r::LessSafeKey::new(r::UnboundKey::new(&r::AES_256_GCM, key).map_err(|_| Unspecified)?);
        k.open_in_place(r::Nonce::assume_unique_for_key(*nonce), r::Aad::from(aad), in_out)
            .map_err(|_| Unspecified)
    }

    #[cfg(all(not(kani), not(feature = "native")))]
    fn seal_impl<InOut>(_: &[u8; 32], _: &[u8; NONCE_LEN], _: &[u8], _: &mut InOut) -> Result<(), Unspecified>
    where
        InOut: AsMut<[u8]> + for<'in_out> Extend<&'in_out u8>,
    {
        panic!("ring-model built without kani and without feature native")
    }
    #[cfg(all(not(kani), not(feature = "native")))]
    fn open_impl<'a>(_: &[u8; 32], _: &[u8; NONCE_LEN], _: &[u8], _: &'a mut [u8]) -> Result<&'a mut [u8], Unspecified> {
        panic!("ring-model built without kani and without feature native")
    }
}
