//! Environment model of the parts of `mio` 0.6 that roughenough's library uses:
//! a scripted UDP socket (datagrams to receive are supplied by the harness, datagrams
//! sent are captured), a poll that yields a harness-chosen event list, and a TCP
//! listener that never has a connection pending.  No kernel, no file descriptors.
#![allow(clippy::all)]

use std::io;
use std::net::SocketAddr;
use std::time::Duration;

#[derive(Clone, Copy, PartialEq, Eq, Debug, Hash, PartialOrd, Ord)]
pub struct Token(pub usize);

#[derive(Clone, Copy, PartialEq, Eq, Debug)]
pub struct Ready(u8);
impl Ready {
    pub fn readable() -> Ready {
        Ready(1)
    }
    pub fn writable() -> Ready {
        Ready(2)
    }
    pub fn is_readable(&self) -> bool {
        self.0 & 1 != 0
    }
}

#[derive(Clone, Copy, PartialEq, Eq, Debug)]
pub struct PollOpt(u8);
impl PollOpt {
    pub fn edge() -> PollOpt {
        PollOpt(1)
    }
    pub fn level() -> PollOpt {
        PollOpt(2)
    }
}

pub trait Evented {}

#[derive(Clone, Copy, Debug)]
pub struct Event {
    token: Token,
}
impl Event {
    pub fn token(&self) -> Token {
        self.token
    }
    pub fn readiness(&self) -> Ready {
        Ready::readable()
    }
}

pub struct Events {
    list: Vec<Event>,
}
impl Events {
    pub fn with_capacity(n: usize) -> Events {
        Events { list: Vec::with_capacity(n) }
    }
    pub fn iter(&self) -> EventsIter<'_> {
        EventsIter { ev: self, pos: 0 }
    }
    pub fn len(&self) -> usize {
        self.list.len()
    }
    pub fn is_empty(&self) -> bool {
        self.list.is_empty()
    }
}
pub struct EventsIter<'a> {
    ev: &'a Events,
    pos: usize,
}
impl<'a> Iterator for EventsIter<'a> {
    type Item = Event;
    fn next(&mut self) -> Option<Event> {
        if self.pos < self.ev.list.len() {
            let e = self.ev.list[self.pos];
            self.pos += 1;
            Some(e)
        } else {
            None
        }
    }
}
impl<'a> IntoIterator for &'a Events {
    type Item = Event;
    type IntoIter = EventsIter<'a>;
    fn into_iter(self) -> EventsIter<'a> {
        self.iter()
    }
}

// ------------------------------------------------------------------ the scripted world

pub struct World {
    /// datagrams still to be received, in order
    pub rx: Vec<(Vec<u8>, SocketAddr)>,
    pub rx_pos: usize,
    /// after the script is exhausted: WouldBlock (false) or a hard error (true)
    pub rx_hard_error_at_end: bool,
    /// captured sends, in order: (bytes, destination, reported_ok)
    pub tx: Vec<(Vec<u8>, SocketAddr, bool)>,
    /// bit i set => the i-th send_to call fails
    pub tx_fail_mask: u32,
    /// tokens the next poll() calls deliver (one list per call)
    pub poll_script: Vec<Vec<usize>>,
    pub poll_pos: usize,
    pub registered: Vec<usize>,
}

pub static mut WORLD: Option<World> = None;

pub fn model_reset() {
    unsafe {
        *core::ptr::addr_of_mut!(WORLD) = Some(World {
            rx: Vec::new(),
            rx_pos: 0,
            rx_hard_error_at_end: false,
            tx: Vec::new(),
            tx_fail_mask: 0,
            poll_script: Vec::new(),
            poll_pos: 0,
            registered: Vec::new(),
        });
    }
}

pub fn world() -> &'static mut World {
    unsafe {
        let w = &mut *core::ptr::addr_of_mut!(WORLD);
        if w.is_none() {
            model_reset();
        }
        (&mut *core::ptr::addr_of_mut!(WORLD)).as_mut().unwrap()
    }
}

pub struct Poll(());
impl Poll {
    pub fn new() -> io::Result<Poll> {
        Ok(Poll(()))
    }
    pub fn register<E: ?Sized + Evented>(&self, _h: &E, token: Token, _r: Ready, _o: PollOpt) -> io::Result<()> {
        world().registered.push(token.0);
        Ok(())
    }
    pub fn poll(&self, events: &mut Events, _timeout: Option<Duration>) -> io::Result<usize> {
        let w = world();
        events.list.clear();
        if w.poll_pos < w.poll_script.len() {
            let n = w.poll_script[w.poll_pos].len();
            let mut i = 0;
            while i < n {
                events.list.push(Event { token: Token(w.poll_script[w.poll_pos][i]) });
                i += 1;
            }
            w.poll_pos += 1;
        }
        Ok(events.list.len())
    }
}

pub mod net {
    use super::*;

    #[derive(Debug)]
    pub struct UdpSocket(());

    impl Evented for UdpSocket {}

    impl UdpSocket {
        pub fn bind(_addr: &SocketAddr) -> io::Result<UdpSocket> {
            Ok(UdpSocket(()))
        }
        pub fn from_socket(_s: std::net::UdpSocket) -> io::Result<UdpSocket> {
            Ok(UdpSocket(()))
        }
        pub fn model() -> UdpSocket {
            UdpSocket(())
        }
        pub fn local_addr(&self) -> io::Result<SocketAddr> {
            Ok(SocketAddr::from(([127, 0, 0, 1], 2002)))
        }
        pub fn recv_from(&self, buf: &mut [u8]) -> io::Result<(usize, SocketAddr)> {
            let w = world();
            if w.rx_pos < w.rx.len() {
                let (ref d, a) = w.rx[w.rx_pos];
                w.rx_pos += 1;
                let n = if d.len() < buf.len() { d.len() } else { buf.len() };
                buf[..n].copy_from_slice(&d[..n]);
                Ok((n, a))
            } else if w.rx_hard_error_at_end {
                w.rx_hard_error_at_end = false;
                Err(io::Error::from(io::ErrorKind::ConnectionRefused))
            } else {
                Err(io::Error::from(io::ErrorKind::WouldBlock))
            }
        }
        pub fn send_to(&self, buf: &[u8], target: &SocketAddr) -> io::Result<usize> {
            let w = world();
            let k = w.tx.len();
            let fail = k < 32 && (w.tx_fail_mask >> k) & 1 == 1;
            w.tx.push((buf.to_vec(), *target, !fail));
            if fail {
                Err(io::Error::from(io::ErrorKind::WouldBlock))
            } else {
                Ok(buf.len())
            }
        }
    }

    #[derive(Debug)]
    pub struct TcpStream(());
    impl io::Write for TcpStream {
        fn write(&mut self, b: &[u8]) -> io::Result<usize> {
            Ok(b.len())
        }
        fn flush(&mut self) -> io::Result<()> {
            Ok(())
        }
    }
    impl TcpStream {
        pub fn shutdown(&self, _how: std::net::Shutdown) -> io::Result<()> {
            Ok(())
        }
    }

    #[derive(Debug)]
    pub struct TcpListener(());
    impl Evented for TcpListener {}
    impl TcpListener {
        pub fn bind(_addr: &SocketAddr) -> io::Result<TcpListener> {
            Ok(TcpListener(()))
        }
        pub fn accept(&self) -> io::Result<(TcpStream, SocketAddr)> {
            Err(io::Error::from(io::ErrorKind::WouldBlock))
        }
    }
}
