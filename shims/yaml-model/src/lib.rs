//! Environment model of the parts of `yaml-rust` that roughenough's FileConfig uses.
//! under Kani: `YamlLoader::load_from_str` ignores its text and returns the document the
//! harness installed with `model_set_doc` (a flat mapping of string keys to integer / string
//! values) -- the YAML *parser* is not the subject, the loader's use of the parsed values is.
//! with feature `native` the real yaml-rust is re-exported (the replay writes a real file).
#![allow(clippy::all)]

#[cfg(feature = "native")]
pub use yaml_real::*;

#[cfg(not(feature = "native"))]
pub use model::*;

#[cfg(not(feature = "native"))]
mod model {
    #[derive(Clone, Debug, PartialEq)]
    pub enum Yaml {
        Integer(i64),
        /// a float scalar, kept as text like yaml-rust does (`16.0`)
        Real(String),
        String(String),
        Hash(Hash),
        BadValue,
    }

    #[derive(Clone, Debug, PartialEq)]
    pub struct Hash {
        pub items: Vec<(Yaml, Yaml)>,
    }

    impl Hash {
        pub fn iter(&self) -> HashIter<'_> {
            HashIter { h: self, pos: 0 }
        }
    }
    pub struct HashIter<'a> {
        h: &'a Hash,
        pos: usize,
    }
    impl<'a> Iterator for HashIter<'a> {
        type Item = (&'a Yaml, &'a Yaml);
        fn next(&mut self) -> Option<Self::Item> {
            if self.pos < self.h.items.len() {
                let (k, v) = &self.h.items[self.pos];
                self.pos += 1;
                Some((k, v))
            } else {
                None
            }
        }
    }
    impl<'a> IntoIterator for &'a Hash {
        type Item = (&'a Yaml, &'a Yaml);
        type IntoIter = HashIter<'a>;
        fn into_iter(self) -> HashIter<'a> {
            self.iter()
        }
    }

    impl Yaml {
        pub fn as_i64(&self) -> Option<i64> {
            match self {
                Yaml::Integer(v) => Some(*v),
                _ => None,
            }
        }
        pub fn as_str(&self) -> Option<&str> {
            match self {
                Yaml::String(s) => Some(s.as_str()),
                _ => None,
            }
        }
        pub fn as_hash(&self) -> Option<&Hash> {
            match self {
                Yaml::Hash(h) => Some(h),
                _ => None,
            }
        }
    }

    #[derive(Debug)]
    pub struct ScanError;

    pub static mut DOC: Option<Vec<Yaml>> = None;

    pub fn model_set_doc(doc: Vec<Yaml>) {
        unsafe {
            *core::ptr::addr_of_mut!(DOC) = Some(doc);
        }
    }

    pub struct YamlLoader;
    impl YamlLoader {
        pub fn load_from_str(_source: &str) -> Result<Vec<Yaml>, ScanError> {
            unsafe {
                match (&mut *core::ptr::addr_of_mut!(DOC)).take() {
                    Some(d) => Ok(d),
                    None => Err(ScanError),
                }
            }
        }
    }
}
