//! Environment model of the parts of `ed25519-dalek` that roughenough uses.
//!
//! under Kani: key derivation and signing are uninterpreted functions
//!   pk  = UF_pk(seed)           (table, functional)
//!   sig = UF_sig(seed, message) (table, functional; every signed message is recorded)
//!   verify(pk, m, sig) = true  if (seed, m) was signed in this run with UF_pk(seed)=pk and sig equal,
//!                        otherwise an arbitrary but functional boolean (recorded).
//! with feature `native`: the real ed25519-dalek does the work, the records stay.
#![allow(clippy::all)]

#[cfg(kani)]
extern crate kani;

pub const SECRET_KEY_LENGTH: usize = 32;
pub const PUBLIC_KEY_LENGTH: usize = 32;
pub const SIGNATURE_LENGTH: usize = 64;

pub type SecretKey = [u8; SECRET_KEY_LENGTH];

#[derive(Debug, Clone, Copy, PartialEq, Eq)]
pub struct SignatureError;
impl core::fmt::Display for SignatureError {
    fn fmt(&self, f: &mut core::fmt::Formatter) -> core::fmt::Result {
        f.write_str("signature error")
    }
}
impl std::error::Error for SignatureError {}

pub trait Signer<S> {
    fn sign(&self, msg: &[u8]) -> S;
}
pub trait Verifier<S> {
    fn verify(&self, msg: &[u8], signature: &S) -> Result<(), SignatureError>;
}

// ------------------------------------------------------------------ records

/// Maximum message length the model records in full.
pub const MMAX: usize = 160;
const MB: usize = MMAX / 16;

#[derive(Clone, Copy)]
pub struct Msg {
    pub w: [u128; MB],
    pub len: usize,
}
impl Msg {
    pub const ZERO: Msg = Msg { w: [0; MB], len: 0 };
    /// Messages longer than MMAX are recorded by their length and their first MMAX bytes (two
    /// long messages with equal length and prefix are then indistinguishable to the model; the
    /// harnesses that use long messages only compare length and prefix).
    pub fn from_bytes(b: &[u8]) -> Msg {
        let n = if b.len() <= MMAX { b.len() } else { MMAX };
        let mut raw = [0u8; MMAX];
        raw[..n].copy_from_slice(&b[..n]);
        Msg { w: unsafe { core::mem::transmute(raw) }, len: b.len() }
    }
    pub fn bytes(&self) -> [u8; MMAX] {
        unsafe { core::mem::transmute(self.w) }
    }
    #[inline]
    pub fn eq(&self, o: &Msg) -> bool {
        self.len == o.len
            && self.w[0] == o.w[0]
            && self.w[1] == o.w[1]
            && self.w[2] == o.w[2]
            && self.w[3] == o.w[3]
            && self.w[4] == o.w[4]
            && self.w[5] == o.w[5]
            && self.w[6] == o.w[6]
            && self.w[7] == o.w[7]
            && self.w[8] == o.w[8]
            && self.w[9] == o.w[9]
    }
}

#[inline]
pub fn eq32(a: &[u8; 32], b: &[u8; 32]) -> bool {
    let x: [u128; 2] = unsafe { core::mem::transmute(*a) };
    let y: [u128; 2] = unsafe { core::mem::transmute(*b) };
    x[0] == y[0] && x[1] == y[1]
}
#[inline]
pub fn eq64(a: &[u8; 64], b: &[u8; 64]) -> bool {
    let x: [u128; 4] = unsafe { core::mem::transmute(*a) };
    let y: [u128; 4] = unsafe { core::mem::transmute(*b) };
    x[0] == y[0] && x[1] == y[1] && x[2] == y[2] && x[3] == y[3]
}

pub const KMAX: usize = 4;
pub const SMAX: usize = 6;
pub const VMAX: usize = 6;

#[derive(Clone, Copy)]
pub struct KeyRec {
    pub seed: [u8; 32],
    pub pk: [u8; 32],
}
#[derive(Clone, Copy)]
pub struct SignRec {
    pub seed: [u8; 32],
    pub pk: [u8; 32],
    pub msg: Msg,
    pub sig: [u8; 64],
}
#[derive(Clone, Copy)]
pub struct VerifyRec {
    pub pk: [u8; 32],
    pub msg: Msg,
    pub sig: [u8; 64],
    pub ok: bool,
}

pub struct Log {
    pub nkeys: usize,
    pub keys: [KeyRec; KMAX],
    pub nsigns: usize,
    pub signs: [SignRec; SMAX],
    pub nverifies: usize,
    pub verifies: [VerifyRec; VMAX],
    /// number of `VerifyingKey::from_bytes` calls and how many were rejected
    pub nparse: usize,
    /// when set, `VerifyingKey::from_bytes` never rejects (all 32-byte strings are points)
    pub all_points_valid: bool,
}

pub static mut LOG: Log = Log {
    nkeys: 0,
    keys: [KeyRec { seed: [0; 32], pk: [0; 32] }; KMAX],
    nsigns: 0,
    signs: [SignRec { seed: [0; 32], pk: [0; 32], msg: Msg::ZERO, sig: [0; 64] }; SMAX],
    nverifies: 0,
    verifies: [VerifyRec { pk: [0; 32], msg: Msg::ZERO, sig: [0; 64], ok: false }; VMAX],
    nparse: 0,
    all_points_valid: false,
};

pub fn model_reset() {
    unsafe {
        let l = &mut *core::ptr::addr_of_mut!(LOG);
        l.nkeys = 0;
        l.nsigns = 0;
        l.nverifies = 0;
        l.nparse = 0;
        l.all_points_valid = false;
    }
}
pub fn model_all_points_valid(v: bool) {
    unsafe {
        (*core::ptr::addr_of_mut!(LOG)).all_points_valid = v;
    }
}
pub fn model_log() -> &'static Log {
    unsafe { &*core::ptr::addr_of!(LOG) }
}

fn uf_pk(seed: &[u8; 32]) -> [u8; 32] {
    unsafe {
        let l = &mut *core::ptr::addr_of_mut!(LOG);
        let mut i = 0;
        while i < l.nkeys {
            if eq32(&l.keys[i].seed, seed) {
                return l.keys[i].pk;
            }
            i += 1;
        }
        let pk = fresh_pk(seed);
        assert!(l.nkeys < KMAX, "VERIF-ENV: signature model key table full");
        l.keys[l.nkeys] = KeyRec { seed: *seed, pk };
        l.nkeys += 1;
        pk
    }
}

fn uf_sign(seed: &[u8; 32], msg: &[u8]) -> [u8; 64] {
    let pk = uf_pk(seed);
    unsafe {
        let l = &mut *core::ptr::addr_of_mut!(LOG);
        let m = Msg::from_bytes(msg);
        // functional: same (seed, message) => same signature (Ed25519 is deterministic)
        let mut i = 0;
        let mut found: Option<[u8; 64]> = None;
        while i < l.nsigns {
            if found.is_none() && eq32(&l.signs[i].seed, seed) && l.signs[i].msg.eq(&m) {
                found = Some(l.signs[i].sig);
            }
            i += 1;
        }
        let sig = match found {
            Some(s) => s,
            None => fresh_sig(seed, msg),
        };
        // every signing call is recorded, repeats included, in call order
        assert!(l.nsigns < SMAX, "VERIF-ENV: signature model sign table full");
        l.signs[l.nsigns] = SignRec { seed: *seed, pk, msg: m, sig };
        l.nsigns += 1;
        sig
    }
}

fn uf_verify(pk: &[u8; 32], msg: &[u8], sig: &[u8; 64]) -> bool {
    unsafe {
        let l = &mut *core::ptr::addr_of_mut!(LOG);
        let m = Msg::from_bytes(msg);
        let mut ok: Option<bool> = None;
        let mut i = 0;
        while i < l.nsigns {
            if ok.is_none() && eq32(&l.signs[i].pk, pk) && l.signs[i].msg.eq(&m) && eq64(&l.signs[i].sig, sig) {
                ok = Some(true);
            }
            i += 1;
        }
        let mut j = 0;
        while j < l.nverifies {
            if ok.is_none() && eq32(&l.verifies[j].pk, pk) && l.verifies[j].msg.eq(&m) && eq64(&l.verifies[j].sig, sig) {
                ok = Some(l.verifies[j].ok);
            }
            j += 1;
        }
        let r = match ok {
            Some(b) => b,
            None => fresh_verdict(pk, msg, sig),
        };
        assert!(l.nverifies < VMAX, "VERIF-ENV: signature model verify table full");
        l.verifies[l.nverifies] = VerifyRec { pk: *pk, msg: m, sig: *sig, ok: r };
        l.nverifies += 1;
        r
    }
}

/// compressed encoding of the identity point (0, 1)
pub const IDENTITY_POINT: [u8; 32] = [1, 0, 0, 0, 0, 0, 0, 0, 0, 0, 0, 0, 0, 0, 0, 0, 0, 0, 0, 0, 0, 0, 0, 0, 0, 0, 0, 0, 0, 0, 0, 0];
pub fn is_identity(b: &[u8; 32]) -> bool {
    let w: [u128; 2] = unsafe { core::mem::transmute(*b) };
    let i: [u128; 2] = unsafe { core::mem::transmute(IDENTITY_POINT) };
    w[0] == i[0] && w[1] == i[1]
}
/// public key = identity, R = identity, S = 0
pub fn weak_triple(pk: &[u8; 32], sig: &[u8; 64]) -> bool {
    let w: [u128; 4] = unsafe { core::mem::transmute(*sig) };
    let i: [u128; 2] = unsafe { core::mem::transmute(IDENTITY_POINT) };
    is_identity(pk) && w[0] == i[0] && w[1] == i[1] && w[2] == 0 && w[3] == 0
}

fn parse_point(bytes: &[u8; 32]) -> bool {
    unsafe {
        let l = &mut *core::ptr::addr_of_mut!(LOG);
        l.nparse += 1;
        if l.all_points_valid {
            return true;
        }
    }
    point_ok(bytes)
}

// ------------------------------------------------------------------ kani back end
#[cfg(kani)]
fn fresh_pk(_seed: &[u8; 32]) -> [u8; 32] {
    kani::any()
}
#[cfg(kani)]
fn fresh_sig(_seed: &[u8; 32], _msg: &[u8]) -> [u8; 64] {
    kani::any()
}
#[cfg(kani)]
fn fresh_verdict(pk: &[u8; 32], _msg: &[u8], sig: &[u8; 64]) -> bool {
    // a fact of RFC 8032 (cofactored or not) verification the weak-key harness relies on: under the
    // identity point as public key, the signature (R = identity, S = 0) verifies for every message
    // ([0]B = identity = R + [k]identity)
    if weak_triple(pk, sig) {
        return true;
    }
    kani::any()
}
#[cfg(kani)]
fn strict_ok(pk: &[u8; 32], _msg: &[u8], sig: &[u8; 64]) -> bool {
    // verify_strict additionally rejects small-order A and R; the model knows one such encoding
    // (the identity) -- an under-approximation of what strict verification rejects
    let mut r = [0u8; 32];
    r.copy_from_slice(&sig[..32]);
    !(is_identity(pk) || is_identity(&r))
}
#[cfg(kani)]
fn point_ok(_b: &[u8; 32]) -> bool {
    kani::any()
}

// ------------------------------------------------------------------ native back end
#[cfg(all(not(kani), feature = "native"))]
fn fresh_pk(seed: &[u8; 32]) -> [u8; 32] {
    dalek_real::SigningKey::from_bytes(seed).verifying_key().to_bytes()
}
#[cfg(all(not(kani), feature = "native"))]
fn fresh_sig(seed: &[u8; 32], msg: &[u8]) -> [u8; 64] {
    use dalek_real::Signer as _;
    dalek_real::SigningKey::from_bytes(seed).sign(msg).to_bytes()
}
#[cfg(all(not(kani), feature = "native"))]
fn fresh_verdict(pk: &[u8; 32], msg: &[u8], sig: &[u8; 64]) -> bool {
    use dalek_real::Verifier as _;
    match dalek_real::VerifyingKey::from_bytes(pk) {
        Ok(k) => k.verify(msg, &dalek_real::Signature::from_bytes(sig)).is_ok(),
        Err(_) => false,
    }
}
#[cfg(all(not(kani), feature = "native"))]
fn strict_ok(pk: &[u8; 32], msg: &[u8], sig: &[u8; 64]) -> bool {
    match dalek_real::VerifyingKey::from_bytes(pk) {
        Ok(k) => k.verify_strict(msg, &dalek_real::Signature::from_bytes(sig)).is_ok(),
        Err(_) => false,
    }
}
#[cfg(all(not(kani), feature = "native"))]
fn point_ok(b: &[u8; 32]) -> bool {
    dalek_real::VerifyingKey::from_bytes(b).is_ok()
}

#[cfg(all(not(kani), not(feature = "native")))]
fn fresh_pk(_seed: &[u8; 32]) -> [u8; 32] {
    panic!("dalek-model built without kani and without feature native")
}
#[cfg(all(not(kani), not(feature = "native")))]
fn fresh_sig(_seed: &[u8; 32], _msg: &[u8]) -> [u8; 64] {
    panic!("dalek-model built without kani and without feature native")
}
#[cfg(all(not(kani), not(feature = "native")))]
fn fresh_verdict(_pk: &[u8; 32], _msg: &[u8], _sig: &[u8; 64]) -> bool {
    panic!("dalek-model built without kani and without feature native")
}
#[cfg(all(not(kani), not(feature = "native")))]
fn strict_ok(_pk: &[u8; 32], _msg: &[u8], _sig: &[u8; 64]) -> bool {
    panic!("dalek-model built without kani and without feature native")
}
#[cfg(all(not(kani), not(feature = "native")))]
fn point_ok(_b: &[u8; 32]) -> bool {
    panic!("dalek-model built without kani and without feature native")
}

// ------------------------------------------------------------------ API surface

#[derive(Clone, Copy, PartialEq, Eq, Debug)]
pub struct Signature([u8; 64]);

impl Signature {
    pub fn from_bytes(b: &[u8; 64]) -> Signature {
        Signature(*b)
    }
    pub fn from_slice(b: &[u8]) -> Result<Signature, SignatureError> {
        let a: [u8; 64] = b.try_into().map_err(|_| SignatureError)?;
        Ok(Signature(a))
    }
    pub fn to_bytes(&self) -> [u8; 64] {
        self.0
    }
    pub fn to_vec(&self) -> Vec<u8> {
        self.0.to_vec()
    }
}

impl TryFrom<&[u8]> for Signature {
    type Error = SignatureError;
    fn try_from(b: &[u8]) -> Result<Self, SignatureError> {
        Signature::from_slice(b)
    }
}

#[derive(Clone)]
pub struct SigningKey {
    seed: [u8; 32],
    vk: VerifyingKey,
}

impl SigningKey {
    pub fn from_bytes(seed: &SecretKey) -> SigningKey {
        let pk = uf_pk(seed);
        SigningKey { seed: *seed, vk: VerifyingKey(pk) }
    }
    pub fn to_bytes(&self) -> SecretKey {
        self.seed
    }
    pub fn verifying_key(&self) -> VerifyingKey {
        self.vk
    }
}

impl From<SecretKey> for SigningKey {
    fn from(seed: SecretKey) -> SigningKey {
        SigningKey::from_bytes(&seed)
    }
}
impl From<&SecretKey> for SigningKey {
    fn from(seed: &SecretKey) -> SigningKey {
        SigningKey::from_bytes(seed)
    }
}

impl Signer<Signature> for SigningKey {
    fn sign(&self, msg: &[u8]) -> Signature {
        Signature(uf_sign(&self.seed, msg))
    }
}

impl Verifier<Signature> for SigningKey {
    fn verify(&self, msg: &[u8], signature: &Signature) -> Result<(), SignatureError> {
        self.vk.verify(msg, signature)
    }
}

#[derive(Clone, Copy, PartialEq, Eq, Debug)]
pub struct VerifyingKey([u8; 32]);

impl VerifyingKey {
    pub fn from_bytes(bytes: &[u8; 32]) -> Result<VerifyingKey, SignatureError> {
        if parse_point(bytes) {
            Ok(VerifyingKey(*bytes))
        } else {
            Err(SignatureError)
        }
    }
    pub fn as_bytes(&self) -> &[u8; 32] {
        &self.0
    }
    /// strict verification: the plain Ed25519 verdict (recorded like `verify`) and, in addition,
    /// rejection of small-order keys and R components
    pub fn verify_strict(&self, msg: &[u8], signature: &Signature) -> Result<(), SignatureError> {
        let plain = uf_verify(&self.0, msg, &signature.0);
        if plain && strict_ok(&self.0, msg, &signature.0) {
            Ok(())
        } else {
            Err(SignatureError)
        }
    }
    pub fn to_bytes(&self) -> [u8; 32] {
        self.0
    }
}

impl Verifier<Signature> for VerifyingKey {
    fn verify(&self, msg: &[u8], signature: &Signature) -> Result<(), SignatureError> {
        if uf_verify(&self.0, msg, &signature.0) {
            Ok(())
        } else {
            Err(SignatureError)
        }
    }
}
