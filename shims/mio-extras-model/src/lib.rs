//! Model of `mio_extras::timer::Timer`: timeouts are accepted and never fire by themselves
//! (the harness chooses which tokens `Poll::poll` delivers).
pub mod timer {
    use std::time::Duration;

    pub struct Timeout(());

    pub struct Timer<T> {
        pending: Vec<(Duration, T)>,
    }
    impl<T> Default for Timer<T> {
        fn default() -> Timer<T> {
            Timer { pending: Vec::new() }
        }
    }
    impl<T> Timer<T> {
        pub fn set_timeout(&mut self, delay: Duration, state: T) -> Timeout {
            self.pending.push((delay, state));
            Timeout(())
        }
        pub fn poll(&mut self) -> Option<T> {
            self.pending.pop().map(|(_, s)| s)
        }
    }
    impl<T> mio::Evented for Timer<T> {}
}
