"""Shared machinery of the /verif checks (stdlib only).

Engine A: Kani/CBMC over a woven scratch copy of /repo's *working tree*.
Nothing here keeps state between runs except the optional dependency build cache under
/verif/.cache (third-party crates and the model crates only; the roughenough crate is
always rebuilt from /repo's current sources).
"""
import json
import os
import re
import shutil
import subprocess
import sys
import threading
import time

VERIF = os.path.dirname(os.path.dirname(os.path.abspath(__file__)))
REPO = os.environ.get("VERIF_REPO", "/repo")
SCRATCH_ROOT = os.environ.get("VERIF_SCRATCH", "/var/tmp/verif-scratch")
CACHE = os.path.join(VERIF, ".cache")
KANI_CACHE = os.path.join(CACHE, "kani-target")
NATIVE_CACHE = os.path.join(CACHE, "native-target")
HARNESS_DIR = os.path.join(VERIF, "harness")
SHIMS = os.path.join(VERIF, "shims")

ENV = dict(os.environ)
ENV["CARGO_NET_OFFLINE"] = "true"
ENV.setdefault("CARGO_TERM_COLOR", "never")

CBMC_ARGS = ["--max-field-sensitivity-array-size", "1024", "--unwindset", "memcmp.0:70"]


def log(*a):
    print(*a, file=sys.stderr, flush=True)


# --------------------------------------------------------------------------- harness metadata

class Harness:
    def __init__(self, name, fam, attrs, file):
        self.name = name
        self.family = fam["name"]
        self.file = file  # path relative to harness dir == path relative to the repo
        a = dict(fam)
        a.update(attrs)
        self.attrs = a
        self.props = [p for p in a.get("props", "").split(",") if p]
        self.mode = a.get("mode", "strict")
        self.tier = a.get("tier", "quick")
        self.mod = a.get("mod", "")
        self.shape = a.get("shape", "")
        self.required = a.get("required", "yes") == "yes"
        self.must_cover = [c for c in a.get("must_cover", "").split(",") if c]
        self.needs = [n for n in a.get("needs", "").split(",") if n]
        self.target = a.get("target", "lib")
        self.expect = a.get("expect", "pass")  # pass | fail (vacuity twins)
        self.cfgs = [c for c in a.get("cfg", "").split(",") if c]
        self.timeout = int(a.get("timeout", "0"))

    @property
    def fqn(self):
        return (self.mod + "::" if self.mod else "") + self.name


_ATTR = re.compile(r'(\w+)=("([^"]*)"|\S+)')


def _parse_attrs(text):
    out = {}
    for m in _ATTR.finditer(text):
        out[m.group(1)] = m.group(3) if m.group(3) is not None else m.group(2)
    return out


def load_harnesses():
    hs = []
    for root, _, files in os.walk(HARNESS_DIR):
        for f in sorted(files):
            if not f.endswith(".rs"):
                continue
            path = os.path.join(root, f)
            rel = os.path.relpath(path, HARNESS_DIR)
            fam = {"name": "?"}
            for line in open(path):
                line = line.strip()
                if line.startswith("//@ family "):
                    rest = line[len("//@ family "):]
                    nm, _, attrs = rest.partition(" ")
                    fam = _parse_attrs(attrs)
                    fam["name"] = nm
                elif line.startswith("//@ harness "):
                    rest = line[len("//@ harness "):]
                    nm, _, attrs = rest.partition(" ")
                    hs.append(Harness(nm, fam, _parse_attrs(attrs), rel))
    return hs


# --------------------------------------------------------------------------- scratch copy

def sh(cmd, **kw):
    return subprocess.run(cmd, **kw)


def make_scratch(tag, weave_files, native=False, client_bin=False, extra_cfg=()):
    """Copy /repo's working tree, append harness text, point the crypto / OS crates at
    the model crates.  Returns the scratch path."""
    os.makedirs(SCRATCH_ROOT, exist_ok=True)
    s = os.path.join(SCRATCH_ROOT, "%s-%d" % (tag, os.getpid()))
    if os.path.exists(s):
        shutil.rmtree(s)
    os.makedirs(s)
    r = sh(["rsync", "-a", "--exclude", "/target", "--exclude", "/.git", "--exclude", "/benches",
            REPO + "/", s + "/"])
    if r.returncode != 0:
        raise RuntimeError("rsync of /repo failed")
    files = ["src/lib.rs"] + [f for f in weave_files if f != "src/lib.rs"]
    for rel in files:
        src = os.path.join(HARNESS_DIR, rel)
        dst = os.path.join(s, rel)
        if not os.path.exists(dst):
            raise RuntimeError("weave target %s does not exist in /repo" % rel)
        with open(dst, "a") as out:
            out.write("\n")
            out.write(open(src).read())
    rewrite_cargo_toml(s, native=native, client_bin=client_bin)
    if client_bin:
        # container model: the client and RtMessage::into_hash_map use a std HashMap, which CBMC
        # cannot get through; only the `use` line changes, no function body is edited
        for rel in ("src/message.rs", "src/bin/roughenough-client.rs"):
            fp = os.path.join(s, rel)
            txt = open(fp).read()
            if "use std::collections::HashMap;" not in txt:
                raise RuntimeError("%s no longer imports std::collections::HashMap the expected way" % rel)
            txt = txt.replace("use std::collections::HashMap;", "use verif_hashmap::HashMap;", 1)
            open(fp, "w").write(txt)
    return s


_DEP_REWRITES = {
    "ed25519-dalek": ("dalek-model", "dalek-model"),
    "mio": ("mio-model", "mio-model"),
    "mio-extras": ("mio-extras-model", "mio-extras-model"),
    "ring": ("ring-model", "ring-model"),
    "yaml-rust": ("yaml-model", "yaml-model"),
}


def all_feature_names():
    names = {"verif_replay"}
    for h in load_harnesses():
        names.update(h.cfgs)
        if h.attrs.get("kf"):
            names.add("verif_kf_" + h.attrs["kf"])
    return sorted(names)


def rewrite_cargo_toml(s, native=False, client_bin=False):
    p = os.path.join(s, "Cargo.toml")
    lines = open(p).read().split("\n")
    out = []
    section = ""
    skip_section = False
    for ln in lines:
        st = ln.strip()
        if st.startswith("["):
            section = st
            skip_section = st in ("[[bench]]", "[dev-dependencies]", "[badges]")
            if skip_section:
                continue
        if skip_section:
            continue
        m = re.match(r'^([A-Za-z0-9_-]+)\s*=', st)
        if section == "[dependencies]" and m and m.group(1) in _DEP_REWRITES:
            d, pkg = _DEP_REWRITES[m.group(1)]
            feats = ', features = ["native"]' if native and m.group(1) in ("ed25519-dalek", "ring", "yaml-rust") else ""
            out.append('%s = { path = "%s", package = "%s"%s }' % (m.group(1), os.path.join(SHIMS, d), pkg, feats))
            continue
        if section == "[package]" and st.startswith("edition"):
            out.append(ln)
            out.append("autobins = false")
            out.append("autobenches = false")
            out.append("autoexamples = false")
            out.append("autotests = false")
            continue
        if section == "[dependencies]" and st.startswith("ahash") and client_bin:
            out.append('verif_hashmap = { path = "%s", package = "hashmap-model"%s }'
                       % (os.path.join(SHIMS, "hashmap-model"), ', features = ["native"]' if native else ""))
        out.append(ln)
        if st == "[features]":
            # harness switches are cargo features of the scratch copy (RUSTFLAGS --cfg would
            # invalidate the dependency build cache)
            for nm in all_feature_names():
                out.append("%s = []" % nm)
    out.append("")
    if client_bin:
        out.append("[[bin]]")
        out.append('name = "roughenough-client"')
        out.append('path = "src/bin/roughenough-client.rs"')
        out.append("")
    out.append("[workspace]")
    out.append("")
    out.append("[lints.rust]")
    out.append('unexpected_cfgs = "allow"')
    out.append("")
    open(p, "w").write("\n".join(out))


def seed_target(scratch, cache):
    """Copy the dependency build cache (if setup built one) into the scratch target dir."""
    t = os.path.join(scratch, "target")
    if os.path.isdir(cache) and not os.path.exists(t):
        sh(["cp", "-a", cache, t])
        return True
    return False


def remove_scratch(s):
    if s and os.path.isdir(s) and os.path.abspath(s).startswith(os.path.abspath(SCRATCH_ROOT)):
        shutil.rmtree(s, ignore_errors=True)


# --------------------------------------------------------------------------- running kani

_NOISE = re.compile(r"register_tool|^warning: use of|^ -->|^  \||^\d+ \||= note|^warning: unused|^warning: unexpected|^\s*$")


def run_kani(scratch, harnesses, jobs, harness_timeout, mem_kb, out_json, logfile, target="lib",
             extra_args=(), features=()):
    """One cargo-kani invocation for all harnesses (a single codegen), CBMC runs in parallel."""
    cmd = ["cargo", "kani", "-Z", "stubbing", "-Z", "unstable-options",
           "--output-format", "terse", "-j", str(jobs),
           "--harness-timeout", "%ds" % harness_timeout,
           "--export-json", out_json, "--exact", "--no-assertion-reach-checks"]
    for h in harnesses:
        cmd += ["--harness", h.fqn]
    cmd += list(extra_args)
    if features:
        cmd += ["--features", ",".join(features)]
    cmd += ["--cbmc-args"] + CBMC_ARGS
    env = dict(ENV)
    t0 = time.time()
    killed = []
    with open(logfile, "w", buffering=1) as lf:
        p = subprocess.Popen(cmd, cwd=scratch, env=env, stdout=subprocess.PIPE,
                             stderr=subprocess.STDOUT, text=True)
        stop = threading.Event()
        wd = threading.Thread(target=_watchdog, args=(p.pid, mem_kb, harness_timeout + 120, stop, killed), daemon=True)
        wd.start()
        for line in p.stdout:
            if _NOISE.search(line):
                continue
            lf.write(line)
        p.wait()
        stop.set()
        for k in killed:
            lf.write("VERIF-WATCHDOG: killed cbmc pid %d (%s)\n" % k)
    return p.returncode, time.time() - t0


def _descendants(root):
    """pids of all descendants of root, with (comm, rss_kb, etimes)."""
    out = subprocess.run(["ps", "-eo", "pid,ppid,rss,etimes,comm"], stdout=subprocess.PIPE, text=True).stdout
    procs = {}
    for ln in out.split("\n")[1:]:
        f = ln.split(None, 4)
        if len(f) == 5:
            try:
                procs[int(f[0])] = (int(f[1]), int(f[2]), int(f[3]), f[4])
            except ValueError:
                pass
    kids = {}
    for pid, (pp, _, _, _) in procs.items():
        kids.setdefault(pp, []).append(pid)
    res = []
    stack = [root]
    while stack:
        x = stack.pop()
        for k in kids.get(x, []):
            res.append((k,) + procs[k][1:])
            stack.append(k)
    return res


def _watchdog(root, mem_kb, max_s, stop, killed):
    """CBMC gets a memory cap and a hard wall-clock cap (the kani driver must not be limited:
    it buffers CBMC's output and dies on allocation failure, losing every result)."""
    while not stop.wait(2.0):
        try:
            for (pid, rss, et, comm) in _descendants(root):
                if comm.strip() in ("cbmc", "goto-instrument", "goto-synthesizer"):
                    if rss > mem_kb:
                        os.kill(pid, 9)
                        killed.append((pid, "rss %d kB > cap %d kB" % (rss, mem_kb)))
                    elif max_s < et < 10000000 and comm.strip() == "cbmc":
                        # (ps occasionally reports a garbage elapsed time for a process that has
                        # just started; such values are ignored)
                        os.kill(pid, 9)
                        killed.append((pid, "ran %d s > cap %d s" % (et, max_s)))
        except Exception:
            pass


def _q(s):
    if re.match(r"^[A-Za-z0-9_@%+=:,./-]+$", s):
        return s
    return "'" + s.replace("'", "'\\''") + "'"


class HarnessResult:
    def __init__(self, h):
        self.h = h
        self.status = "missing"      # success | failure | undecided | missing
        self.duration_s = 0.0
        self.failed_verif = []       # [(id, description)]
        self.failed_other = []       # [(class, description, function)]
        self.failed_env = []
        self.failed_unwind = []
        self.covers_sat = []
        self.covers_unsat = []
        self.stats = {}
        self.n_checks = 0
        self.n_verif_checks = 0

    def to_json(self):
        return {
            "harness": self.h.fqn, "family": self.h.family, "shape": self.h.shape, "tier": self.h.tier,
            "mode": self.h.mode, "result": self.status, "duration_s": round(self.duration_s, 2),
            "checks": self.n_checks, "property_assertions": self.n_verif_checks,
            "covers_satisfied": self.covers_sat, "covers_unsatisfied": self.covers_unsat,
            "failed_property_assertions": [i for i, _ in self.failed_verif],
            "failed_other_checks": [d for _, d, _ in self.failed_other][:10],
            "cbmc": self.stats,
        }


def parse_results(out_json, harnesses, logfile):
    res = {h.fqn: HarnessResult(h) for h in harnesses}
    if not os.path.exists(out_json):
        return res
    try:
        d = json.load(open(out_json))
    except Exception:
        return res
    for c in d.get("cbmc", []):
        r = res.get(c.get("harness_id"))
        if r is not None:
            r.stats = c.get("cbmc_stats", {}) or {}
    for v in d.get("verification_results", {}).get("results", []):
        r = res.get(v.get("harness_id"))
        if r is None:
            continue
        r.duration_s = v.get("duration_ms", 0) / 1000.0
        st = v.get("status")
        checks = v.get("checks", []) or []
        r.n_checks = len(checks)
        undet = False
        for k in checks:
            desc = k.get("description", "") or ""
            cat = k.get("category", "")
            status = k.get("status", "")
            if "VERIF:" in desc:
                r.n_verif_checks += 1
            if cat == "cover" or desc.startswith("COVER:"):
                (r.covers_sat if status == "Satisfied" else r.covers_unsat).append(desc)
                continue
            if status in ("Success", "Unreachable"):
                continue
            if status == "Failure":
                m = re.search(r"VERIF:(C\d+(?:\+C\d+)*:[A-Za-z0-9_.-]+)", desc)
                if m:
                    r.failed_verif.append((m.group(1), desc))
                elif "VERIF-ENV" in desc:
                    r.failed_env.append(desc)
                elif "unwinding assertion" in desc or cat == "unwind":
                    r.failed_unwind.append(desc)
                else:
                    r.failed_other.append((cat, desc, k.get("function", "")))
            else:
                undet = True
        if st == "Success" and not undet:
            r.status = "success"
        elif st == "Failure" and (r.failed_verif or r.failed_other or r.failed_env or r.failed_unwind):
            r.status = "failure"
        else:
            # timeout / out of memory / solver error: never a pass
            r.status = "undecided"
    return res


def model_crate_list():
    return sorted(os.listdir(SHIMS))
