"""Per-property description used for evidence (what is encoded, bounds, models)."""

COMMON_MODELS = [
    "<Error as From<io::Error>>::from stubbed (drops the message text; wording of error strings is not part of any property)",
]

PROPS = {
    "C05": {
        "functions": ["RtMessage::from_bytes", "RtMessage::single_tag_message", "RtMessage::multi_tag_message",
                      "RtMessage::add_field", "RtMessage::encode", "RtMessage::encode_framed",
                      "RtMessage::encoded_size", "Tag::from_wire", "Tag::wire_value", "Tag::partial_cmp"],
        "bounds": "decode differential: count word concrete per harness, every other byte symbolic, shapes (count,len) listed "
                  "per harness; builder/encode: field count and value lengths concrete per harness, tags (all ascending "
                  "18-tag combinations) and value bytes symbolic; Tag table: all 2^32 words",
        "outside": "field counts > 6 and buffers > 72 bytes (same per-field loop body, not proved); canonical re-encoding is "
                   "obtained compositionally (decoder == reference decoder, encoder == reference encoder, reference codec "
                   "self-consistent), not by executing encode(from_bytes(b)) in one query",
        "models": COMMON_MODELS,
        "assumptions": ["reference codec written from the Roughtime tag-value format description is the oracle",
                        "CBMC/Kani translation of Rust MIR is trusted"],
    },
    "C06": {
        "functions": ["RtMessage::from_bytes", "RtMessage::single_tag_message", "RtMessage::multi_tag_message",
                      "RtMessage::to_string", "Tag::from_wire"],
        "bounds": "same decode shapes as C05 with every Kani built-in check (panic, overflow, out-of-bounds, invalid pointer) "
                  "counted; display: shapes listed per harness",
        "outside": "buffers > 72 bytes, counts > 6",
        "models": COMMON_MODELS,
        "assumptions": ["CBMC/Kani translation of Rust MIR is trusted"],
    },
}

PROPS["C07"] = {
    "functions": ["request::nonce_from_request", "request::is_rfc_request", "request::nonce_from_classic_request",
                  "request::nonce_from_rfc_request", "request::get_supported_version", "RtMessage::from_bytes", "RtMessage::get_field"],
    "bounds": "size gate: every usize outside 1024..=1500; accept logic: private parsers on small frames (count word concrete, "
              "frame length/offsets/tags/values symbolic; shapes per harness) against a reference accept predicate",
    "outside": "the conjunction 'size gate then parser' is read off nonce_from_request's two branches (compositional step); "
               "datagrams in 1024..=1500 are not executed at full size except for the concrete-layout harnesses",
    "models": COMMON_MODELS,
    "assumptions": ["CBMC/Kani translation of Rust MIR is trusted"],
}
PROPS["C12"] = {
    "quick_timeout": 600,
    "functions": ["request::nonce_from_rfc_request", "request::get_supported_version", "RtMessage::from_bytes", "RtMessage::get_field",
                  "Version::wire_bytes", "OnlineKey::make_srep (VER/VERS)"],
    "bounds": "version scan alone: lists of 0,1,2,4,6 arbitrary 32-bit words; framed requests with concrete layout {VER, [SRV], NONC}: "
              "lists of 0..=5 arbitrary words (6 thorough), SRV absent / wrong lengths 0, 4, 28 (32 arbitrary bytes vs arbitrary or fixed "
              "expected value, 36: thorough), nonce lengths 28/32/36/64",
    "outside": "version lists longer than 6 words; other tag layouts than {VER,[SRV],NONC} (covered for <= 3 fields by c07_rfc)",
    "models": COMMON_MODELS,
    "assumptions": ["CBMC/Kani translation of Rust MIR is trusted"],
}

CRYPTO_MODELS = COMMON_MODELS + [
    "ed25519-dalek replaced by /verif/shims/dalek-model: public key and signature are uninterpreted functions of (seed) and (seed, message); every signed message is recorded; verify is an arbitrary functional predicate consistent with signing",
    "ring::digest replaced by /verif/shims/ring-model: SHA-512 is an uninterpreted function (table of recorded queries)",
    "ring::rand::SystemRandom::fill yields arbitrary bytes (one fresh symbolic block per call)",
]
PROPS["C13"] = {
    "functions": ["MsgSigner::from_seed", "MsgSigner::update", "MsgSigner::sign", "MsgSigner::public_key_bytes",
                  "MsgVerifier::new", "MsgVerifier::update", "MsgVerifier::verify"],
    "bounds": "signer: sequences of 1..3 messages, each in 1..3 chunks of lengths from {0,1,4}, incl. empty messages signed with no update() call at all (thorough: 36+72 and 32+100), all seed and "
              "message bytes symbolic; verifier: messages of 0, 5 and 132 bytes, key, message and signature bytes symbolic",
    "outside": "messages longer than 160 bytes, more than 3 messages per signer; that ed25519-dalek implements RFC 8032 (trusted)",
    "models": CRYPTO_MODELS,
    "assumptions": ["ed25519-dalek's SigningKey::sign / VerifyingKey::verify are RFC 8032 Ed25519 (the model abstracts them)"],
}
PROPS["C11"] = {
    "functions": ["OnlineKey::make_srep", "OnlineKey::classic_midp", "OnlineKey::rfc_midp", "RtMessage::add_field", "RtMessage::encode",
                  "MsgSigner::update", "MsgSigner::sign"],
    "bounds": "clock = UNIX_EPOCH + (secs, nanos): classic secs < 2^40 (year ~36800), IETF secs < 2^62, nanos < 10^9, all values; root bytes symbolic",
    "outside": "classic clocks beyond 2^40 s (secs*10^6 overflows u64 only beyond year 584000); 'taken when the batch was signed' is "
               "checked in the responder harness (C09/C02) by pinning the clock",
    "models": CRYPTO_MODELS,
    "assumptions": ["std::time::SystemTime arithmetic as compiled by Kani"],
}
PROPS["C10"] = {
    "functions": ["LongTermKey::new", "LongTermKey::calc_srv_value", "LongTermKey::make_cert", "LongTermKey::public_key",
                  "LongTermKey::srv_value", "OnlineKey::new", "OnlineKey::make_dele", "MsgSigner::*", "Version::dele_prefix"],
    "bounds": "every 32-byte seed (symbolic); two constructions from one seed; two certificates in sequence from one long-term key "
              "(IETF then classic as in Server::new; thorough: classic twice)",
    "outside": "that the model's UF_pk is RFC 8032 key derivation (ed25519-dalek's contract, trusted); restarts are modelled as "
               "repeated construction in one run; more than two certificates per key",
    "models": CRYPTO_MODELS,
    "assumptions": ["ed25519-dalek implements RFC 8032", "ring implements SHA-512"],
}

PROPS["C04"] = {
    "functions": ["MerkleTree::new", "MerkleTree::push_leaf", "MerkleTree::compute_root", "MerkleTree::get_paths",
                  "MerkleTree::root_from_paths", "MerkleTree::reset", "MerkleTree::hash_leaf", "MerkleTree::hash_nodes",
                  "MerkleTree::finalize_output"],
    "bounds": "quick: 1..2 leaves (3 for the reset invariant; thorough: ..5) of 0/4/8 symbolic bytes, one concrete position per harness, both hash profiles; stray trailing path bytes (1, 16, 63); "
              "binding for 2 (thorough 3) pairwise distinct leaves against: any other in-range index, any other leaf, any single "
              "changed path byte, any appended element, removed last element; reuse for batch pairs (3,2), (2,3) (thorough (1,3), (4,1))",
    "outside": "leaf counts above 5 (same level recursion; not proved), leaves longer than 8 bytes, sequences of more than two batches",
    "models": ["ring::digest replaced by /verif/shims/ring-model: SHA-512 is an uninterpreted function; for the binding harnesses it is "
               "additionally assumed collision-free (full width and 32-byte truncation) on the queries of the run"],
    "assumptions": ["SHA-512 collision resistance (as the injectivity assumption on recorded queries)"],
}

PROPS["C14"] = {
    "functions": ["EnvelopeEncryption::encrypt_seed", "EnvelopeEncryption::decrypt_seed", "vec_zero_filled"],
    "bounds": "seed 32 and 64 bytes, wrapped key 32 and 48 bytes (all bytes symbolic); any single byte at any position >= 4 xor any "
              "nonzero value; length-field bytes individually and the wrapped-length field at the boundary values len, len-1, len-3, len-4; truncation to 0, 95, 96, 127 bytes; extension by 1 and 4 bytes; provider "
              "faults: error on wrap, error on unwrap, 31- and 33-byte key, any different 32-byte key",
    "outside": "confidentiality ('blob contains neither seed nor key') is a secrecy property of AES-GCM which the ideal AEAD model "
               "assumes rather than proves -- not claimed; wrapped-key lengths other than 32/48; two simultaneous modifications",
    "models": ["ring::aead replaced by an ideal AEAD (/verif/shims/ring-model): seal returns arbitrary ciphertext||tag and records "
               "(key, nonce, aad, plaintext); open succeeds only on exactly the recorded key, nonce, aad and ciphertext||tag",
               "KmsProvider is an ideal wrapper defined in the harness (arbitrary wrapped bytes, unwrap only of exactly those bytes)",
               "alloc::fmt::format and <KmsError as From<io::Error>>::from stubbed (error text is not part of the property)"],
    "assumptions": ["AES-256-GCM is a secure AEAD (ideal model)"],
}

PROPS["C17"] = {
    "functions": ["AggregatedStats::new", "AggregatedStats::add_* (8 recording operations)", "AggregatedStats getters", "AggregatedStats::clear",
                  "ClientStats::merge"],
    "bounds": "one recording step from an arbitrary pre-state (nine counters < 2^32, byte count < 2^20) -- inductive over event "
              "sequences of any length below counter overflow; merge of two arbitrary per-client records (counters < 2^31)",
    "outside": "PerClientStats (AHashMap: reaches getrandom FFI and does not finish under CBMC; measured in DESIGN.md section 3), the "
               "reporter's queue, snapshot splitting across workers, and the wiring of the counters into the serving loop except for what the "
               "responder harness (C09) observes -- those parts of C17 are not claimed",
    "models": ["std::hash::RandomState::new stubbed with fixed keys (the map inside AggregatedStats is never inserted into)"],
    "assumptions": ["counters stay below overflow (2^64 events)"],
}

NET_MODELS = CRYPTO_MODELS + [
    "mio replaced by /verif/shims/mio-model: scripted UDP socket (captures every send_to with its destination; the i-th send fails when bit i of a harness-chosen mask is set)",
    "std::time::SystemTime::now stubbed: returns UNIX_EPOCH + a harness-chosen symbolic instant and counts its calls",
    "std::hash::RandomState::new stubbed with fixed keys (AggregatedStats' empty map)",
    "Responder is constructed field by field from LongTermKey::new / OnlineKey::new / make_cert / MerkleTree::new (Responder::new itself reads the thread name and hex-encodes the key, which is not the subject); Grease is seeded by the harness",
]
PROPS["C02"] = {
    "functions": ["Responder::reset", "Responder::add_classic_request", "Responder::add_ietf_request", "Responder::send_responses",
                  "Responder::make_response", "OnlineKey::make_srep", "LongTermKey::make_cert", "MerkleTree::*", "RtMessage::encode",
                  "RtMessage::encode_framed", "Grease::should_add_error"],
    "bounds": "independent protocol verifier (written from the Google and draft-13 descriptions, H uninterpreted) against: Merkle trees of "
              "1..2 leaves (thorough ..5) per profile and position; whole batches of 1..2 requests (thorough 3) through send_responses with "
              "symbolic nonces, seed and clock; make_srep / make_cert for every clock, root and seed; fault gate for every PRNG state at p=0",
    "outside": "batches larger than 3, request sizes are abstracted to the leaf handed to add_ietf_request (8 bytes), the failing *share* under "
               "p>0 is a probability statement (not decidable by a solver), sequences of batches beyond the tree-reuse harnesses of C04",
    "models": NET_MODELS,
    "assumptions": ["ed25519-dalek implements RFC 8032", "ring implements SHA-512"],
}
PROPS["C09"] = {
    "functions": ["Responder::reset", "Responder::add_classic_request", "Responder::add_ietf_request", "Responder::send_responses",
                  "Responder::make_response", "request::nonce_from_request routing (is_rfc_request, parsers)", "ServerStats recording"],
    "bounds": "one batch of 1..2 (thorough 3) requests per protocol from distinct addresses, nonces symbolic (thorough: identical nonces "
              "from two addresses), any clock, send failures by mask; routing: framed iff first 8 bytes are ROUGHTIM, parser verdict and "
              "version for small frames",
    "outside": "multi-batch interleavings on a live socket, bursts larger than the batch size, the event loop of Server::process_events "
               "(65 KiB receive buffer and mio poll are not executed)",
    "models": NET_MODELS,
    "assumptions": [],
}
PROPS["C08"] = {
    "functions": ["RtMessage::from_bytes", "RtMessage::to_string", "request::nonce_from_*", "Responder::send_responses", "Grease::should_add_error"],
    "bounds": "panic-freedom (every Kani built-in check) of: decoding for the C05 shapes, display for the C06 shapes, request parsing for "
              "the C07/C12 shapes, one responder batch for the C09 shapes",
    "outside": "sequences of datagrams are reduced to one step from the post-reset responder state; log levels above Off (the debug! "
               "arguments) are covered only by the nonce-length gate that makes nonce[0..4] safe; Server::process_events itself",
    "models": NET_MODELS,
    "assumptions": [],
}

CLIENT_MODELS = CRYPTO_MODELS + [
    "std::collections::HashMap replaced (one `use` line in the scratch copy of src/message.rs and the client) by an association-list model with the same observable behaviour; the replay uses the real std HashMap",
    "ResponseHandler is constructed directly from its five maps (what ResponseHandler::new yields for a response with these fields); its parsing unwraps are rejections and not part of the acceptance condition",
]
PROPS["C01"] = {
    "functions": ["ResponseHandler::extract_time", "ResponseHandler::validate_dele", "ResponseHandler::validate_srep",
                  "ResponseHandler::validate_merkle", "ResponseHandler::validate_midpoint", "ResponseHandler::validate_sig",
                  "MsgVerifier::new/update/verify", "MerkleTree::root_from_paths", "Version::dele_prefix", "Version::sign_prefix"],
    "bounds": "per harness a response layout (protocol, path depth 0 or 1): SIG, CERT.SIG (any 64 bytes each), nonce, PATH, INDX, "
              "MIDP/RADI/MINT/MAXT (any values), ROOT (any bytes in the forged-proof harnesses) symbolic; Ed25519 verification is an "
              "arbitrary functional predicate, SHA-512 an uninterpreted function",
    "outside": "main(): nonce freshness per request, exit status plumbing and printing are read off the code, not executed (clap, sockets); "
               "path depths above 1; key parsing (hex/base64); responses that fail to parse",
    "models": CLIENT_MODELS,
    "assumptions": ["ed25519-dalek implements RFC 8032", "ring implements SHA-512", "a panic in the client ends the process with a non-zero status and no time printed"],
    "quick_timeout": 600,
}

PROPS["C03"] = {
    "functions": ["ResponseHandler::extract_time and its validators", "MerkleTree::root_from_paths", "MsgVerifier::*"],
    "bounds": "an honest reference responder written from the protocol descriptions (own keys; leaf = nonce for classic, the request "
              "packet for IETF) answers with path depth 0 or 1 at either position; nonce, request bytes, midpoint (any u64), key seeds, "
              "path element symbolic; the client must accept, report verified and the signed midpoint/radius",
    "outside": "make_request's 1024-byte padding and main()'s conversion of the midpoint to seconds/nanoseconds and its printing are "
               "not executed (inline in main behind clap and sockets); path depths 2..6; the real server as responder (C02 ties the "
               "server to the same reference verifier)",
    "models": CLIENT_MODELS,
    "assumptions": ["ed25519-dalek implements RFC 8032", "ring implements SHA-512"],
    "quick_timeout": 600,
}

PROPS["C16"] = {
    "functions": ["FileConfig::new", "config::file::int_setting", "EnvironmentConfig::new", "config::is_valid_config", "ServerConfig getters", "MemoryConfig"],
    "bounds": "file loader: for each of port, batch_size, status_interval, health_check_port, fault_percentage, num_workers one harness "
              "with that value any i64 (all 2^64) and the others fixed (accepted => getters equal the written values); validator: "
              "is_valid_config on a MemoryConfig with port any u16, batch_size/fault_percentage any u8, num_workers any usize; "
              "environment: each documented variable name with an in-range value, and port/batch_size/fault_percentage with any "
              "value 0..=999999 (six symbolic decimal digits)",
    "outside": "the YAML parser itself (model crate returns the parsed document), seed strings of wrong alphabet/length, unknown-key "
               "rejection, kms_protection and client_stats/persistence_directory (string matching and file system), string-to-integer "
               "parsing of environment values beyond the concrete values used",
    "models": ["yaml-rust replaced by /verif/shims/yaml-model (load_from_str returns the document installed by the harness; the replay "
               "writes a real file and uses the real parser)",
               "File::open / read_to_string / OwnedFd drop / thread::available_parallelism stubbed; alloc::fmt::format and "
               "<SocketAddr as FromStr>::from_str stubbed (udp_socket_addr formats and parses an address; not the subject); "
               "data_encoding::Encoding::decode stubbed (the seed text is not the subject; the real decode forces an unwind bound at "
               "which the recursive drop glue of io::Error does not finish)",
               "loader and validator are separate obligations (FileConfig::new; is_valid_config on MemoryConfig): composing them is an argument",
               "std::env::var stubbed: returns the value the harness assigned to that exact variable name, NotPresent otherwise"],
    "assumptions": ["str::parse::<uN> is exact or fails"],
    "quick_timeout": 600,
}

NOT_APPLICABLE = {
    "C15": "observable is a running multi-threaded process (thread liveness, N workers binding one health-check port, poisoned mutex): Kani/CBMC has no threads, processes or sockets; a model of them would only check the model",
    "C18": "quantifies over OS schedules and SO_REUSEPORT datagram distribution across worker threads: CBMC/Kani does not handle concurrent Rust, the shared state is a lock-free crossbeam queue plus the kernel",
    "C19": "signal delivery instants, the ctrlc handler thread and the process exit status are outside any encoding of the Rust code the solver can execute",
    "C20": "non-interference over all emitted bytes including log records rendered through core::fmt: with the cryptography abstracted the public key is an uninterpreted function of the seed, so 'output does not contain the seed' cannot be told from 'output is a function of the seed'; symbolic execution of the formatting machinery is out of reach (one error string cost > 15 min)",
}
_PENDING = "check not built yet in this session (planned, see DESIGN.md section 5); no claim is made"
for _p in ["C01", "C02", "C03", "C04", "C07", "C08", "C09", "C10", "C11", "C12", "C13", "C14", "C16", "C17"]:
    NOT_APPLICABLE.setdefault(_p, _PENDING)
