"""Per-property description used for evidence (what is encoded, bounds, models)."""

COMMON_MODELS = [
    "<Error as From<io::Error>>::from stubbed (drops the message text; wording of error strings is not part of any property)",
]

PROPS = {
    "C05": {
        "functions": ["RtMessage::from_bytes", "RtMessage::single_tag_message", "RtMessage::multi_tag_message",
                      "RtMessage::add_field", "RtMessage::encode", "RtMessage::encode_framed",
                      "RtMessage::encoded_size", "Tag::from_wire", "Tag::wire_value", "Tag::partial_cmp"],
        "bounds": "decode differential: count word concrete per harness, every other byte symbolic, shapes (count,len) listed "
                  "per harness; builder/encode: field count and value lengths concrete per harness, tags (all ascending "
                  "18-tag combinations) and value bytes symbolic; Tag table: all 2^32 words",
        "outside": "field counts > 6 and buffers > 72 bytes (same per-field loop body, not proved); canonical re-encoding is "
                   "obtained compositionally (decoder == reference decoder, encoder == reference encoder, reference codec "
                   "self-consistent), not by executing encode(from_bytes(b)) in one query",
        "models": COMMON_MODELS,
        "assumptions": ["reference codec written from the Roughtime tag-value format description is the oracle",
                        "CBMC/Kani translation of Rust MIR is trusted"],
    },
    "C06": {
        "functions": ["RtMessage::from_bytes", "RtMessage::single_tag_message", "RtMessage::multi_tag_message",
                      "RtMessage::to_string", "Tag::from_wire"],
        "bounds": "same decode shapes as C05 with every Kani built-in check (panic, overflow, out-of-bounds, invalid pointer) "
                  "counted; display: shapes listed per harness",
        "outside": "buffers > 72 bytes, counts > 6",
        "models": COMMON_MODELS,
        "assumptions": ["CBMC/Kani translation of Rust MIR is trusted"],
    },
}

NOT_APPLICABLE = {
    "C15": "observable is a running multi-threaded process (thread liveness, N workers binding one health-check port, poisoned mutex): Kani/CBMC has no threads, processes or sockets; a model of them would only check the model",
    "C18": "quantifies over OS schedules and SO_REUSEPORT datagram distribution across worker threads: CBMC/Kani does not handle concurrent Rust, the shared state is a lock-free crossbeam queue plus the kernel",
    "C19": "signal delivery instants, the ctrlc handler thread and the process exit status are outside any encoding of the Rust code the solver can execute",
    "C20": "non-interference over all emitted bytes including log records rendered through core::fmt: with the cryptography abstracted the public key is an uninterpreted function of the seed, so 'output does not contain the seed' cannot be told from 'output is a function of the seed'; symbolic execution of the formatting machinery is out of reach (one error string cost > 15 min)",
}
_PENDING = "check not built yet in this session (planned, see DESIGN.md section 5); no claim is made"
for _p in ["C01", "C02", "C03", "C04", "C07", "C08", "C09", "C10", "C11", "C12", "C13", "C14", "C16", "C17"]:
    NOT_APPLICABLE.setdefault(_p, _PENDING)
