"""Counterexample extraction (Kani concrete playback) and native replay against the real code."""
import json
import os
import re
import subprocess
import time

import common as C

KNOWN_FILE = os.path.join(C.VERIF, "KNOWN_FINDINGS.txt")


def load_known_findings(pid):
    out = []
    if not os.path.exists(KNOWN_FILE):
        return out
    for line in open(KNOWN_FILE):
        line = line.strip()
        if not line or line.startswith("#"):
            continue
        kind, _, rest = line.partition(":")
        kind = kind.strip()
        m = re.search(r"property=(C\d+)", rest)
        if not m or m.group(1) != pid:
            continue
        km = re.search(r"key=(\w+)", rest)
        wm = re.search(r'what="([^"]*)"', rest)
        out.append({"kind": kind, "key": km.group(1) if km else "", "what": wm.group(1) if wm else rest.strip(),
                    "raw": line})
    return out


def extract_counterexample(scratch, h, features=(), what=""):
    """Re-run the single failing harness with concrete playback and return the flattened
    bytes of all nondeterministic values in order of creation."""
    cmd = ["cargo", "kani", "-Z", "stubbing", "-Z", "unstable-options", "-Z", "concrete-playback",
           "--concrete-playback=print", "--no-assertion-reach-checks", "--harness", h.fqn, "--exact"]
    if h.target == "client":
        cmd += ["--bin", "roughenough-client"]
    if features:
        cmd += ["--features", ",".join(features)]
    cmd += ["--cbmc-args"] + C.CBMC_ARGS
    env = dict(C.ENV)
    p = subprocess.run(["bash", "-c", "exec timeout 2400 " + " ".join(C._q(c) for c in cmd)],
                       cwd=scratch, env=env, stdout=subprocess.PIPE, stderr=subprocess.STDOUT, text=True)
    txt = p.stdout
    # Kani prints one generated test per check (failed assertions AND satisfied covers), each
    # announced by a doc comment "Check for `<kind>`: "<description>"": pick the one that
    # belongs to the failing check
    blocks = txt.split("Concrete playback unit test for")[1:]
    chosen = None
    fallback = None
    for b in blocks:
        km = re.search(r"Check for `(\w+)`: (.*)", b)
        kind = km.group(1) if km else ""
        desc = km.group(2) if km else ""
        if kind == "cover" or "COVER:" in desc:
            continue
        if fallback is None:
            fallback = b
        if what.startswith("panic:"):
            if "VERIF" not in desc and chosen is None:
                chosen = b
        elif ("VERIF:" + what) in desc and chosen is None:
            chosen = b
    b = chosen or fallback
    if b is None:
        return None, txt[-2000:]
    m = re.search(r"let concrete_vals: Vec<Vec<u8>> = vec!\[(.*?)\];\s*kani::concrete_playback_run", b, re.S)
    if not m:
        return None, txt[-2000:]
    body = m.group(1)
    data = bytearray()
    for vm in re.finditer(r"vec!\[([0-9,\s]*)\]", body):
        for tok in vm.group(1).split(","):
            tok = tok.strip()
            if tok:
                data.append(int(tok))
    return bytes(data), ""


def native_replay(h, hexinput, keep=False, profile="dev", features=()):
    """Build the woven copy natively against the REAL dependencies (model crates in
    pass-through mode) and run the harness body as an ordinary test on the concrete input."""
    weave = sorted(set([h.file] + h.needs))
    s = C.make_scratch("replay-" + h.name, weave, native=True, client_bin=(h.target == "client"))
    try:
        C.seed_target(s, C.NATIVE_CACHE)
        env = dict(C.ENV)
        env["VERIF_INPUT"] = hexinput
        env["RUST_BACKTRACE"] = "0"
        cmd = ["cargo", "test", "--offline"]
        if profile == "release":
            cmd.append("--release")
        cmd += ["--features", ",".join(["verif_replay"] + list(h.cfgs) + list(features))]
        cmd += (["--bin", "roughenough-client"] if h.target == "client" else ["--lib"])
        cmd += [h.fqn, "--", "--exact", "--nocapture", "--test-threads", "1"]
        p = subprocess.run(cmd, cwd=s, env=env, stdout=subprocess.PIPE, stderr=subprocess.STDOUT, text=True,
                           timeout=1800)
        out = p.stdout
        ran = re.search(r"running 1 test", out) is not None
        if "VERIF-REPLAY: precondition-not-met" in out:
            return {"ran": True, "failed": False, "detail": "precondition not met natively", "output": out[-1500:]}
        if not ran:
            return {"ran": False, "failed": False, "detail": "native build or test selection failed", "output": out[-3000:]}
        failed = re.search(r"test result: FAILED|panicked at", out) is not None
        pm = re.search(r"panicked at [^\n]*\n([^\n]*)", out)
        return {"ran": True, "failed": failed, "detail": (pm.group(0).replace("\n", " ") if pm else ""),
                "output": out[-1500:]}
    finally:
        if not keep:
            C.remove_scratch(s)


def confirm(pid, h, what, scratches, keep=False, features=()):
    """Turn a failing harness into a concrete input, replay it natively, write the replay file."""
    scratch = None
    for s in scratches:
        if os.path.isdir(s) and (("-client" in os.path.basename(s)) == (h.target == "client")):
            scratch = s
    if scratch is None:
        return {"reproduced": False, "detail": "no scratch copy to extract the counterexample from"}
    t0 = time.time()
    data, err = extract_counterexample(scratch, h, list(h.cfgs) + list(features), what)
    if data is None:
        return {"reproduced": False, "detail": "concrete playback produced no values: " + err[-400:]}
    hexs = data.hex()
    r = native_replay(h, hexs, keep=keep, features=features)
    os.makedirs(os.path.join(C.VERIF, "replays", pid), exist_ok=True)
    path = os.path.join(C.VERIF, "replays", pid, h.name + ".json")
    rec = {
        "property": pid, "harness": h.fqn, "harness_name": h.name, "harness_file": h.file, "needs": h.needs,
        "target": h.target, "cfgs": h.cfgs, "failing": what, "input_hex": hexs,
        "native": {"ran": r["ran"], "failed": r["failed"], "detail": r["detail"]},
        "rerun": "./check %s --replay %s" % (pid, os.path.relpath(path, C.VERIF)),
        "explain": "input_hex is the solver's assignment to the harness' symbolic inputs in order of creation; the replay "
                   "builds /repo's working tree with the real dependencies and runs the harness body on it as a test",
        "extract_s": round(time.time() - t0, 1),
    }
    with open(path, "w") as f:
        json.dump(rec, f, indent=1)
    return {"reproduced": bool(r["ran"] and r["failed"] and matches(what, r["detail"])),
            "detail": r["detail"] or r.get("output", "")[-300:], "path": path}


def matches(what, native_detail):
    """The native failure must be the one the solver reported: the same property assertion,
    or -- for a panic inside the code under test -- a panic that is not a harness assertion."""
    if what.startswith("panic:"):
        return "VERIF" not in native_detail
    return ("VERIF:" + what) in native_detail


def replay_file(pid, path, keep=False):
    rec = json.load(open(path))
    hs = [h for h in C.load_harnesses() if h.name == rec["harness_name"]]
    if not hs:
        print("harness %s no longer exists" % rec["harness_name"])
        return 2
    r = native_replay(hs[0], rec["input_hex"], keep=keep)
    print(r["output"])
    if r["ran"] and r["failed"] and matches(rec.get("failing", ""), r["detail"]):
        print("VIOLATION property=%s replay=%s" % (pid, path))
        return 1
    if not r["ran"]:
        print("INCONCLUSIVE: " + r["detail"])
        return 2
    print("replay passes on the current tree: " + r["detail"])
    return 0
