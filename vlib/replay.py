"""Counterexample extraction (Kani concrete playback) and native replay against the real code."""
import json
import os
import re
import subprocess
import time

import common as C

KNOWN_FILE = os.path.join(C.VERIF, "KNOWN_FINDINGS.txt")


def load_known_findings(pid):
    out = []
    if not os.path.exists(KNOWN_FILE):
        return out
    for line in open(KNOWN_FILE):
        line = line.strip()
        if not line or line.startswith("#"):
            continue
        kind, _, rest = line.partition(":")
        kind = kind.strip()
        m = re.search(r"property=(C\d+)", rest)
        if not m or m.group(1) != pid:
            continue
        km = re.search(r"key=(\w+)", rest)
        wm = re.search(r'what="([^"]*)"', rest)
        out.append({"kind": kind, "key": km.group(1) if km else "", "what": wm.group(1) if wm else rest.strip(),
                    "raw": line})
    return out


def extract_counterexample(scratch, h, features=(), what="", cap_s=2400):
    """Re-run the single failing harness with concrete playback and return the flattened
    bytes of all nondeterministic values in order of creation."""
    cmd = ["cargo", "kani", "-Z", "stubbing", "-Z", "unstable-options", "-Z", "concrete-playback",
           "--concrete-playback=print", "--no-assertion-reach-checks", "--harness", h.fqn, "--exact"]
    if h.target == "client":
        cmd += ["--bin", "roughenough-client"]
    if features:
        cmd += ["--features", ",".join(features)]
    cmd += ["--cbmc-args"] + C.CBMC_ARGS
    env = dict(C.ENV)
    p = subprocess.run(["bash", "-c", "exec timeout %d " % cap_s + " ".join(C._q(c) for c in cmd)],
                       cwd=scratch, env=env, stdout=subprocess.PIPE, stderr=subprocess.STDOUT, text=True)
    txt = p.stdout
    # Kani prints one generated test per check (failed assertions AND satisfied covers), each
    # announced by a doc comment "Check for `<kind>`: "<description>"": pick the one that
    # belongs to the failing check
    blocks = txt.split("Concrete playback unit test for")[1:]
    first, second, third = [], [], []
    for b in blocks:
        km = re.search(r"Check for `(\w+)`: (.*)", b)
        kind = km.group(1) if km else ""
        desc = km.group(2) if km else ""
        is_cover = kind == "cover" or "COVER:" in desc
        if what.startswith("COVER:"):
            (first if what in desc else third).append(b)
        elif what.startswith("panic:"):
            (third if is_cover else (second if "VERIF" in desc else first)).append(b)
        elif ("VERIF:" + what) in desc:
            first.append(b)
        else:
            # Kani de-duplicates generated tests with identical values: the failing check's own test
            # can be missing when a cover witness has the same input -- those are tried last
            (third if is_cover else second).append(b)
    out = []
    for b in first + second + third:
        m = re.search(r"let concrete_vals: Vec<Vec<u8>> = vec!\[(.*?)\];\s*kani::concrete_playback_run", b, re.S)
        if not m:
            continue
        data = bytearray()
        for vm in re.finditer(r"vec!\[([0-9,\s]*)\]", m.group(1)):
            for tok in vm.group(1).split(","):
                tok = tok.strip()
                if tok:
                    data.append(int(tok))
        if bytes(data) not in out:
            out.append(bytes(data))
    if not out:
        return None, txt[-2000:]
    if what.startswith("COVER:"):
        return out[0], ""
    return out, ""


def native_replay(h, hexinput, keep=False, profile="dev", features=()):
    """Build the woven copy natively against the REAL dependencies (model crates in
    pass-through mode) and run the harness body as an ordinary test on the concrete input."""
    weave = sorted(set([h.file] + h.needs))
    s = C.make_scratch("replay-" + h.name, weave, native=True, client_bin=(h.target == "client"))
    try:
        C.seed_target(s, C.NATIVE_CACHE)
        env = dict(C.ENV)
        env["VERIF_INPUT"] = hexinput
        env["RUST_BACKTRACE"] = "0"
        cmd = ["cargo", "test", "--offline"]
        if profile == "release":
            cmd.append("--release")
        cmd += ["--features", ",".join(["verif_replay"] + list(h.cfgs) + list(features))]
        cmd += (["--bin", "roughenough-client"] if h.target == "client" else ["--lib"])
        cmd += [h.fqn, "--", "--exact", "--nocapture", "--test-threads", "1"]
        p = subprocess.run(cmd, cwd=s, env=env, stdout=subprocess.PIPE, stderr=subprocess.STDOUT, text=True,
                           timeout=1800)
        out = p.stdout
        ran = re.search(r"running 1 test", out) is not None
        if "VERIF-REPLAY: precondition-not-met" in out:
            return {"ran": True, "failed": False, "detail": "precondition not met natively", "output": out[-1500:]}
        if not ran:
            return {"ran": False, "failed": False, "detail": "native build or test selection failed", "output": out[-3000:]}
        failed = re.search(r"test result: FAILED|panicked at", out) is not None
        pm = re.search(r"panicked at [^\n]*\n([^\n]*)", out)
        return {"ran": True, "failed": failed, "detail": (pm.group(0).replace("\n", " ") if pm else ""),
                "output": out[-1500:]}
    finally:
        if not keep:
            C.remove_scratch(s)


def confirm(pid, h, what, scratches, keep=False, features=()):
    """Turn a failing harness into a concrete input, replay it natively, write the replay file."""
    scratch = None
    for s in scratches:
        if os.path.isdir(s) and (("-client" in os.path.basename(s)) == (h.target == "client")):
            scratch = s
    if scratch is None:
        return {"reproduced": False, "detail": "no scratch copy to extract the counterexample from"}
    t0 = time.time()
    cands, err = extract_counterexample(scratch, h, list(h.cfgs) + list(features), what)
    if cands is None:
        # Kani sometimes generates no playback test although a check failed (seen when the failure
        # does not depend on the symbolic inputs): the all-zero input is then tried natively -- it
        # only counts if the very same assertion fails there
        cands = [b""]
    hexs, r = "", None
    for data in cands[:3]:
        hexs = data.hex()
        r = native_replay(h, hexs, keep=keep, features=features)
        if r["ran"] and r["failed"] and matches(what, r["detail"]):
            break
    os.makedirs(os.path.join(C.VERIF, "replays", pid), exist_ok=True)
    path = os.path.join(C.VERIF, "replays", pid, h.name + ".json")
    rec = {
        "property": pid, "harness": h.fqn, "harness_name": h.name, "harness_file": h.file, "needs": h.needs,
        "target": h.target, "cfgs": h.cfgs, "failing": what, "input_hex": hexs,
        "native": {"ran": r["ran"], "failed": r["failed"], "detail": r["detail"]},
        "rerun": "./check %s --replay %s" % (pid, os.path.relpath(path, C.VERIF)),
        "explain": "input_hex is the solver's assignment to the harness' symbolic inputs in order of creation; the replay "
                   "builds /repo's working tree with the real dependencies and runs the harness body on it as a test",
        "extract_s": round(time.time() - t0, 1),
    }
    with open(path, "w") as f:
        json.dump(rec, f, indent=1)
    return {"reproduced": bool(r["ran"] and r["failed"] and matches(what, r["detail"])),
            "detail": r["detail"] or r.get("output", "")[-300:], "path": path}


def matches(what, native_detail):
    """The native failure must be the one the solver reported: the same property assertion,
    or -- for a panic inside the code under test -- a panic that is not a harness assertion."""
    if what.startswith("panic:"):
        return "VERIF" not in native_detail
    if ("VERIF:" + what) in native_detail:
        return True
    # natively (no Kani stubs, real dependencies) the same input may trip a different assertion of
    # the same harness first; it counts if that assertion belongs to the same property
    props = what.split(":")[0].split("+")
    m = re.search(r"VERIF:(C\d+(?:\+C\d+)*):", native_detail)
    return bool(m and any(p in m.group(1).split("+") for p in props))


def replay_file(pid, path, keep=False):
    rec = json.load(open(path))
    hs = [h for h in C.load_harnesses() if h.name == rec["harness_name"]]
    if not hs:
        print("harness %s no longer exists" % rec["harness_name"])
        return 2
    r = native_replay(hs[0], rec["input_hex"], keep=keep)
    print(r["output"])
    if r["ran"] and r["failed"] and matches(rec.get("failing", ""), r["detail"]):
        print("VIOLATION property=%s replay=%s" % (pid, path))
        return 1
    if not r["ran"]:
        print("INCONCLUSIVE: " + r["detail"])
        return 2
    print("replay passes on the current tree: " + r["detail"])
    return 0


def validate_witness(pid, h, cover, scratches, keep=False):
    """Positive replay: the solver's witness for a satisfied cover of a *passing* harness is run
    natively against the real dependencies; the harness body (all its assertions) must pass there
    too.  Returns (ok, detail)."""
    scratch = None
    for s in scratches:
        if os.path.isdir(s) and (("-client" in os.path.basename(s)) == (h.target == "client")):
            scratch = s
    if scratch is None:
        return None, "no scratch copy"
    # the witness harness is the cheapest passing one: a tight cap keeps the quick command in budget
    data, err = extract_counterexample(scratch, h, list(h.cfgs), cover, cap_s=300)
    if data is None:
        return None, "no witness extracted: " + err[-200:]
    r = native_replay(h, data.hex(), keep=keep)
    if not r["ran"]:
        return None, "native run did not start: " + r["detail"]
    if r["failed"]:
        return False, r["detail"]
    return True, "witness %s of %s passes natively (input %d bytes)" % (cover, h.name, len(data))
