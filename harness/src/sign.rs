
// ===========================================================================
// woven by /verif: proof harnesses for src/sign.rs (C13; shared by C01, C02, C10)
// ===========================================================================
#[cfg(any(kani, feature = "verif_replay"))]
#[allow(dead_code, unused_imports)]
pub(crate) mod verif_sign {
    use super::*;
    use crate::verif_support::*;
    use crate::{vassert, vcover};
    use ed25519_dalek as dalek;

    /// accessors for sibling harness modules (the fields are private to this module)
    pub fn signer_buf_len(s: &MsgSigner) -> usize {
        s.buf.len()
    }

    /// expected concatenation of chunk slices `data[a..b]`, compared with a model record
    fn msg_is(rec: &dalek::Msg, want: &[u8]) -> bool {
        dalek::Msg::from_bytes(want).eq(rec)
    }

    /// Sign M messages with one signer; message m is fed in chunks of the given lengths.
    /// Every byte is symbolic.  The signature model records exactly what reaches
    /// `SigningKey::sign`; natively (replay) the same records are compared with the real
    /// ed25519-dalek one-shot signature.
    pub fn signer_body<const M: usize, const C: usize, const T: usize>(chunks: [[usize; C]; M]) {
        signer_body_opt::<M, C, T>(chunks, false)
    }

    /// `skip_empty`: a chunk of length 0 means "update() is not called at all" (an empty message
    /// signed without any update call) instead of update(&[]).
    pub fn signer_body_opt<const M: usize, const C: usize, const T: usize>(chunks: [[usize; C]; M], skip_empty: bool) {
        dalek::model_reset();
        let seed: [u8; 32] = vany_bytes::<32>();
        let data: [u8; T] = vany_bytes::<T>();
        let mut signer = MsgSigner::from_seed(&seed);
        let pk = signer.public_key_bytes();
        let mut at = 0usize;
        let mut m = 0;
        while m < M {
            let start = at;
            let mut c = 0;
            while c < C {
                if !(skip_empty && chunks[m][c] == 0) {
                    signer.update(&data[at..at + chunks[m][c]]);
                }
                at += chunks[m][c];
                c += 1;
            }
            let sig = signer.sign();
            let log = dalek::model_log();
            vassert!(log.nsigns == m + 1, "VERIF:C13:one-signing-operation-per-sign-call");
            let rec = &log.signs[m];
            vassert!(dalek::eq32(&rec.seed, &seed), "VERIF:C13:signed-with-the-seed-given");
            vassert!(msg_is(&rec.msg, &data[start..at]), "VERIF:C13:signed-message-is-concatenation-of-this-messages-chunks-only");
            vassert!(sig.len() == 64, "VERIF:C13:signature-is-64-bytes");
            let sig_arr: [u8; 64] = sig.as_slice().try_into().unwrap();
            vassert!(dalek::eq64(&sig_arr, &rec.sig), "VERIF:C13:returned-signature-is-the-ed25519-signature");
            #[cfg(not(kani))]
            {
                // native replay: compare with the real one-shot signature and verify it
                use ed25519_dalek::Verifier;
                let vk = dalek::VerifyingKey::from_bytes(&pk.as_slice().try_into().unwrap()).unwrap();
                let ok = vk.verify(&data[start..at], &dalek::Signature::from_bytes(&sig_arr)).is_ok();
                vassert!(ok, "VERIF:C13:signature-verifies-over-this-message-alone");
            }
            core::mem::forget(sig);
            m += 1;
        }
        vassert!(pk.len() == 32 && dalek::eq32(&pk.as_slice().try_into().unwrap(), &dalek::model_log().keys[0].pk),
                 "VERIF:C13:public-key-is-the-seeds-public-key");
        vcover!(true, "COVER:signer-end");
        core::mem::forget(pk);
        core::mem::forget(signer);
    }

    macro_rules! c13_signer {
        ($name:ident, $m:expr, $c:expr, $t:expr, $chunks:expr, $unwind:expr) => {
            #[cfg_attr(kani, kani::proof)]
            #[cfg_attr(kani, kani::unwind($unwind))]
            #[cfg_attr(not(kani), test)]
            fn $name() {
                signer_body::<$m, $c, $t>($chunks);
            }
        };
    }

    //@ family c13_signer props=C13,C10 mode=strict mod=sign::verif_sign must_cover=COVER:signer-end
    //@ harness c13_signer_one_msg_3chunks tier=quick shape="1 message in chunks 4+0+1 B"
    c13_signer!(c13_signer_one_msg_3chunks, 1, 3, 5, [[4, 0, 1]], 6);
    //@ harness c13_signer_empty_msg tier=quick shape="1 empty message (no update)"
    c13_signer!(c13_signer_empty_msg, 1, 1, 1, [[0]], 6);
    //@ harness c13_signer_two_msgs tier=quick shape="2 messages: chunks 4+1, then 1+4"
    c13_signer!(c13_signer_two_msgs, 2, 2, 10, [[4, 1], [1, 4]], 6);
    //@ harness c13_signer_three_msgs tier=quick shape="3 messages: 4+4, 0+0 (empty), 1+0"
    c13_signer!(c13_signer_three_msgs, 3, 2, 9, [[4, 4], [0, 0], [1, 0]], 6);
    //@ harness c13_signer_no_update_second tier=quick shape="2 messages: 4+1, then an empty message signed with no update() call at all"
    #[cfg_attr(kani, kani::proof)]
    #[cfg_attr(kani, kani::unwind(6))]
    #[cfg_attr(not(kani), test)]
    fn c13_signer_no_update_second() {
        signer_body_opt::<2, 2, 5>([[4, 1], [0, 0]], true);
    }
    //@ harness c13_signer_no_update_middle tier=quick shape="3 messages: 1 byte, then empty with no update() call, then 4 bytes"
    #[cfg_attr(kani, kani::proof)]
    #[cfg_attr(kani, kani::unwind(6))]
    #[cfg_attr(not(kani), test)]
    fn c13_signer_no_update_middle() {
        signer_body_opt::<3, 1, 5>([[1], [0], [4]], true);
    }
    //@ harness c13_signer_capacity_crossing tier=quick shape="1 message of 1025 bytes fed as 1024 + 1 (crosses the signer's initial buffer capacity); length and first 160 bytes compared" timeout=600
    c13_signer!(c13_signer_capacity_crossing, 1, 2, 1025, [[1024, 1]], 6);
    //@ harness c13_signer_capacity_crossing_second tier=thorough shape="2 messages: 1000 + 30, then 4 (first crosses the capacity)" required=no
    c13_signer!(c13_signer_capacity_crossing_second, 2, 2, 1034, [[1000, 30], [4, 0]], 6);
    //@ harness c13_signer_long_chunks tier=thorough shape="2 messages: 36+72 (delegation-sized), 32+100 (response-sized)"
    c13_signer!(c13_signer_long_chunks, 2, 2, 240, [[36, 72], [32, 100]], 6);

    /// Verifier: verify(sig) is exactly the Ed25519 verdict on (key, concatenation of updates, sig).
    pub fn verifier_body<const C: usize, const T: usize>(chunks: [usize; C], sig_len: usize) {
        verifier_body_w::<C, T>(chunks, sig_len, false)
    }

    /// weak = true: the key is the identity point and the signature (R = identity, S = 0), which plain
    /// RFC 8032 verification accepts for every message (a stricter verifier does not); the message
    /// stays symbolic.
    pub fn verifier_body_w<const C: usize, const T: usize>(chunks: [usize; C], sig_len: usize, weak: bool) {
        dalek::model_reset();
        let mut key: [u8; 32] = vany_bytes::<32>();
        let data: [u8; T] = vany_bytes::<T>();
        let mut sig: [u8; 64] = vany_bytes::<64>();
        if weak {
            key = dalek::IDENTITY_POINT;
            sig = [0u8; 64];
            sig[0] = 1;
        }
        // key parsing may reject (not a curve point): the verifier then panics, which for the
        // callers is a rejection; the claim below is about keys that parse
        dalek::model_all_points_valid(true);
        let mut v = MsgVerifier::new(&key);
        let mut at = 0usize;
        let mut c = 0;
        while c < C {
            v.update(&data[at..at + chunks[c]]);
            at += chunks[c];
            c += 1;
        }
        let verdict = v.verify(&sig[..sig_len]);
        let log = dalek::model_log();
        vassert!(log.nverifies == 1, "VERIF:C13:one-verification-per-verify-call");
        let rec = &log.verifies[0];
        vassert!(dalek::eq32(&rec.pk, &key), "VERIF:C13:verified-under-the-key-given");
        vassert!(msg_is(&rec.msg, &data[..at]), "VERIF:C13:verified-message-is-concatenation-of-updates");
        vassert!(dalek::eq64(&rec.sig, &sig), "VERIF:C13:verified-signature-is-the-one-given");
        vcover!(verdict, "COVER:accepts");
        vcover!(!verdict, "COVER:rejects");
        vcover!(weak, "COVER:weak-key-triple-verified");
        vassert!(verdict == rec.ok, "VERIF:C13:verify-returns-the-ed25519-verdict");
        core::mem::forget(v);
    }

    macro_rules! c13_verifier {
        ($name:ident, $c:expr, $t:expr, $chunks:expr, $unwind:expr) => {
            #[cfg_attr(kani, kani::proof)]
            #[cfg_attr(kani, kani::unwind($unwind))]
            #[cfg_attr(not(kani), test)]
            fn $name() {
                verifier_body::<$c, $t>($chunks, 64);
            }
        };
    }
    //@ family c13_verifier props=C13,C01 mode=strict mod=sign::verif_sign must_cover=COVER:accepts,COVER:rejects
    //@ harness c13_verifier_3chunks tier=quick shape="message in chunks 4+0+1 B, key, signature symbolic"
    c13_verifier!(c13_verifier_3chunks, 3, 5, [4, 0, 1], 6);
    //@ harness c13_verifier_empty tier=quick shape="empty message"
    c13_verifier!(c13_verifier_empty, 1, 1, [0], 6);
    //@ harness c13_verifier_prefix_payload tier=quick shape="message in chunks 32+100 B (response-sized)"
    c13_verifier!(c13_verifier_prefix_payload, 2, 132, [32, 100], 6);
    //@ family c13_verifier_weak props=C13 mode=strict mod=sign::verif_sign must_cover=COVER:weak-key-triple-verified
    //@ harness c13_verifier_weak_key tier=quick shape="key = identity point, signature (R = identity, S = 0), message 4+0+1 symbolic bytes: accepted by plain Ed25519 verification for every message"
    #[cfg_attr(kani, kani::proof)]
    #[cfg_attr(kani, kani::unwind(6))]
    #[cfg_attr(not(kani), test)]
    fn c13_verifier_weak_key() {
        verifier_body_w::<3, 5>([4, 0, 1], 64, true);
    }
}
