
// ===========================================================================
// woven by /verif: proof harnesses for src/key/longterm.rs (C10, C02 certificate)
// ===========================================================================
#[cfg(any(kani, feature = "verif_replay"))]
#[allow(dead_code, unused_imports)]
pub(crate) mod verif_longterm {
    use super::*;
    use crate::key::online::verif_online::arr;
    use crate::message::verif_message::*;
    use crate::verif_support::*;
    use crate::{vassert, vcover};
    use ed25519_dalek as dalek;

    pub const DELE_CTX_GOOGLE: &[u8] = b"RoughTime v1 delegation signature--\x00";
    pub const DELE_CTX_IETF: &[u8] = b"RoughTime v1 delegation signature\x00";

    //@ family c10_identity props=C10 mode=strict mod=key::longterm::verif_longterm needs=src/message.rs,src/key/online.rs,src/sign.rs must_cover=COVER:identity-end
    //@ harness c10_identity tier=quick shape="32-byte seed symbolic; two constructions from the same seed"
    /// public key = Ed25519 public key of exactly the 32 seed bytes; SRV = SHA-512(0xff || pk)[..32];
    /// no randomness is consumed; a second construction from the same seed gives the same identity.
    #[cfg_attr(kani, kani::proof)]
    #[cfg_attr(kani, kani::unwind(8))]
    #[cfg_attr(not(kani), test)]
    fn c10_identity() {
        dalek::model_reset();
        ring::rand::model_reset(None);
        ring::digest::model_reset(false);
        let seed: [u8; 32] = vany_bytes::<32>();
        let k1 = LongTermKey::new(&seed);
        let log = dalek::model_log();
        vassert!(log.nkeys == 1 && dalek::eq32(&log.keys[0].seed, &seed), "VERIF:C10:key-derived-from-exactly-the-seed-bytes");
        let pk1 = k1.public_key();
        vassert!(pk1.len() == 32, "VERIF:C10:public-key-is-32-bytes");
        let pk1a: [u8; 32] = arr::<32>(&pk1);
        vassert!(dalek::eq32(&pk1a, &log.keys[0].pk), "VERIF:C10:announced-key-is-ed25519-public-key-of-seed");
        // SRV: exactly one hash query, over 0xff || pk, truncated to 32 bytes
        let h = ring::digest::model_log();
        vassert!(h.n == 1 && h.calls == 1, "VERIF:C10:srv-is-one-hash");
        let mut want = [0u8; 33];
        want[0] = 0xff;
        want[1..].copy_from_slice(&pk1a);
        vassert!(ring::blk::Key::from_bytes(&want).eq(&h.q[0].input), "VERIF:C10:srv-hash-input-is-0xff-then-public-key");
        let srv1 = k1.srv_value();
        vassert!(srv1.len() == 32, "VERIF:C10:srv-is-32-bytes");
        let s1: [u8; 32] = arr::<32>(srv1);
        let first32: [u8; 32] = arr::<32>(&h.q[0].output[..32]);
        vassert!(dalek::eq32(&s1, &first32), "VERIF:C10:srv-is-first-32-bytes-of-the-hash");
        vassert!(ring::rand::model_calls() == 0, "VERIF:C10:identity-uses-no-randomness");
        // same seed again (a restart): same identity
        let k2 = LongTermKey::new(&seed);
        let pk2: [u8; 32] = arr::<32>(&k2.public_key());
        let s2: [u8; 32] = arr::<32>(k2.srv_value());
        vassert!(dalek::eq32(&pk1a, &pk2) && dalek::eq32(&s1, &s2), "VERIF:C10:same-seed-same-identity");
        vcover!(true, "COVER:identity-end");
        core::mem::forget(pk1);
        core::mem::forget(k1);
        core::mem::forget(k2);
    }

    /// make_cert for both protocol versions in sequence from one long-term key (as Server::new
    /// does): each certificate is SIG over (that version's delegation context ++ DELE) only.
    pub fn cert_body(first: Version, second: Version) {
        dalek::model_reset();
        ring::rand::model_reset(None);
        ring::digest::model_reset(false);
        let seed: [u8; 32] = vany_bytes::<32>();
        let mut ltk = LongTermKey::new(&seed);
        let olk1 = OnlineKey::new();
        let olk2 = OnlineKey::new();
        let versions = [first, second];
        let mut i = 0;
        while i < 2 {
            let v = versions[i];
            let olk = if i == 0 { &olk1 } else { &olk2 };
            let cert = ltk.make_cert(&v, olk);
            vassert!(cert.num_fields() == 2 && cert.tags()[0] == Tag::SIG && cert.tags()[1] == Tag::DELE, "VERIF:C10:CERT-is-SIG-DELE");
            let sig = &cert.values()[0];
            let dele = &cert.values()[1];
            vassert!(sig.len() == 64 && dele.len() == 72, "VERIF:C10:CERT-field-sizes");
            let d: [u8; 72] = arr::<72>(dele);
            // DELE certifies this online key
            let opk: [u8; 32] = arr::<32>(&crate::key::online::verif_online::online_pk(olk));
            let rm = ref_decode(&d, 3);
            vassert!(rm.is_some(), "VERIF:C10:DELE-is-wellformed");
            let rm = rm.unwrap();
            vassert!(rm.n == 3 && rm.tags[0] == T_PUBK && rm.tags[1] == T_MINT && rm.tags[2] == T_MAXT, "VERIF:C10:DELE-is-PUBK-MINT-MAXT");
            vassert!(dalek::eq32(&arr::<32>(&d[rm.hdr..rm.hdr + 32]), &opk), "VERIF:C10:DELE-PUBK-is-the-online-key-being-certified");
            vassert!(le64(&d, rm.hdr + 32) == 0 && le64(&d, rm.hdr + 40) == u64::MAX, "VERIF:C10:delegation-window-contains-every-midpoint");
            // what the long-term key signed
            let log = dalek::model_log();
            vassert!(log.nsigns == i + 1, "VERIF:C10:one-signature-per-certificate");
            let rec = &log.signs[i];
            vassert!(dalek::eq32(&rec.seed, &seed), "VERIF:C10:certificate-signed-by-the-long-term-key");
            let ok = match v {
                Version::Google => {
                    let mut m = [0u8; 36 + 72];
                    m[..36].copy_from_slice(DELE_CTX_GOOGLE);
                    m[36..].copy_from_slice(&d);
                    dalek::Msg::from_bytes(&m).eq(&rec.msg)
                }
                Version::RfcDraft13 => {
                    let mut m = [0u8; 34 + 72];
                    m[..34].copy_from_slice(DELE_CTX_IETF);
                    m[34..].copy_from_slice(&d);
                    dalek::Msg::from_bytes(&m).eq(&rec.msg)
                }
            };
            vassert!(ok, "VERIF:C10:signed-bytes-are-this-versions-delegation-context-then-DELE-only");
            vassert!(dalek::eq64(&arr::<64>(sig), &rec.sig), "VERIF:C10:CERT-SIG-is-that-signature");
            core::mem::forget(cert);
            i += 1;
        }
        // the two contexts differ, so a certificate never verifies under the other protocol's context
        vassert!(Version::Google.dele_prefix() == DELE_CTX_GOOGLE, "VERIF:C10:classic-delegation-context");
        vassert!(Version::RfcDraft13.dele_prefix() == DELE_CTX_IETF, "VERIF:C10:ietf-delegation-context");
        vcover!(true, "COVER:cert-end");
        core::mem::forget(ltk);
        core::mem::forget(olk1);
        core::mem::forget(olk2);
    }

    //@ family c10_cert props=C10,C02 mode=strict mod=key::longterm::verif_longterm needs=src/message.rs,src/key/online.rs,src/sign.rs must_cover=COVER:cert-end
    //@ harness c10_cert_ietf_then_classic tier=quick shape="seed symbolic; certificates for IETF then classic (Server::new order)"
    #[cfg_attr(kani, kani::proof)]
    #[cfg_attr(kani, kani::unwind(40))]
    #[cfg_attr(kani, kani::stub(<crate::error::Error as std::convert::From<std::io::Error>>::from, crate::verif_support::stub_error_from_io))]
    #[cfg_attr(kani, kani::stub(std::time::SystemTime::now, crate::key::online::verif_online::stub_now_any))]
    #[cfg_attr(not(kani), test)]
    fn c10_cert_ietf_then_classic() {
        cert_body(Version::RfcDraft13, Version::Google);
    }
    //@ harness c10_cert_classic_twice tier=thorough shape="seed symbolic; two classic certificates for two online keys"
    #[cfg_attr(kani, kani::proof)]
    #[cfg_attr(kani, kani::unwind(40))]
    #[cfg_attr(kani, kani::stub(<crate::error::Error as std::convert::From<std::io::Error>>::from, crate::verif_support::stub_error_from_io))]
    #[cfg_attr(kani, kani::stub(std::time::SystemTime::now, crate::key::online::verif_online::stub_now_any))]
    #[cfg_attr(not(kani), test)]
    fn c10_cert_classic_twice() {
        cert_body(Version::Google, Version::Google);
    }
}
