
// ===========================================================================
// woven by /verif: proof harnesses for src/key/online.rs (C11, C02 signed response, C12 VER/VERS, C10 DELE)
// ===========================================================================
#[cfg(any(kani, feature = "verif_replay"))]
#[allow(dead_code, unused_imports)]
pub(crate) mod verif_online {
    use super::*;
    use crate::message::verif_message::*;
    use crate::verif_support::*;
    use crate::{vassert, vcover};
    use ed25519_dalek as dalek;
    use std::time::Duration;

    pub const SIGN_CTX: &[u8] = b"RoughTime v1 response signature\x00";

    /// SystemTime::now is a syscall; key and certificate construction must not depend on the clock,
    /// the stub hands out an arbitrary instant should the code ask for one
    pub fn stub_now_any() -> SystemTime {
        let s = vany_u64();
        vassume(s < (1u64 << 40));
        UNIX_EPOCH + Duration::new(s, 0)
    }

    pub fn online_pk(k: &OnlineKey) -> Vec<u8> {
        k.signer.public_key_bytes()
    }

    /// copy a Vec/slice of known length into a fixed array (single memcpy)
    pub fn arr<const N: usize>(v: &[u8]) -> [u8; N] {
        let mut a = [0u8; N];
        a.copy_from_slice(v);
        a
    }

    /// make_srep for a symbolic clock and root; SREP is decoded with the reference decoder.
    /// RL = root length (64 classic / 32 IETF), SL = SREP length.
    pub fn srep_body<const RL: usize, const SL: usize, const ML: usize>(version: Version, max_secs: u64) {
        dalek::model_reset();
        ring::rand::model_reset(None);
        let secs = vany_u64();
        let nanos = vany_u32();
        let root: [u8; RL] = vany_bytes::<RL>();
        vassume(secs < max_secs);
        vassume(nanos < 1_000_000_000);
        let mut key = OnlineKey::new();
        let now = UNIX_EPOCH + Duration::new(secs, nanos);
        let out = key.make_srep(version, now, &root);

        // ---- outer message: exactly SIG, SREP
        vassert!(out.num_fields() == 2, "VERIF:C02:srep-result-has-SIG-and-SREP");
        vassert!(out.tags()[0] == Tag::SIG && out.tags()[1] == Tag::SREP, "VERIF:C02:srep-result-tags");
        let sig = &out.values()[0];
        let srep = &out.values()[1];
        vassert!(sig.len() == 64, "VERIF:C02:signature-is-64-bytes");
        vassert!(srep.len() == SL, "VERIF:C02:srep-length");
        let s: [u8; SL] = arr::<SL>(srep);

        // ---- what was signed: context string ++ SREP, by the online key, once
        let log = dalek::model_log();
        vassert!(log.nsigns == 1, "VERIF:C02:one-signature-per-srep");
        let mut signed = [0u8; ML];
        signed[..32].copy_from_slice(SIGN_CTX);
        signed[32..].copy_from_slice(&s);
        vassert!(dalek::Msg::from_bytes(&signed).eq(&log.signs[0].msg), "VERIF:C02:signed-bytes-are-response-context-then-SREP");
        vassert!(dalek::eq64(&arr::<64>(sig), &log.signs[0].sig), "VERIF:C02:SIG-is-the-signature-over-context-and-SREP");
        let pk = key.signer.public_key_bytes();
        vassert!(dalek::eq32(&arr::<32>(&pk), &log.signs[0].pk), "VERIF:C02:signed-by-the-online-key");

        // ---- SREP content per protocol
        let rm = ref_decode(&s, 5);
        vassert!(rm.is_some(), "VERIF:C02:SREP-is-a-wellformed-message");
        let rm = rm.unwrap();
        let (i_radi, i_midp, i_root) = match version {
            Version::Google => {
                vassert!(rm.n == 3 && rm.tags[0] == T_RADI && rm.tags[1] == T_MIDP && rm.tags[2] == T_ROOT,
                         "VERIF:C02:classic-SREP-is-RADI-MIDP-ROOT");
                (0, 1, 2)
            }
            Version::RfcDraft13 => {
                vassert!(rm.n == 5 && rm.tags[0] == T_VER && rm.tags[1] == T_RADI && rm.tags[2] == T_MIDP
                         && rm.tags[3] == T_VERS && rm.tags[4] == T_ROOT, "VERIF:C12:ietf-SREP-is-VER-RADI-MIDP-VERS-ROOT");
                vassert!(rm.end[0] - rm.start[0] == 4 && le32(&s, rm.hdr + rm.start[0]) == 0x8000_000c,
                         "VERIF:C12:signed-VER-is-draft13");
                vassert!(rm.end[3] - rm.start[3] == 8 && le32(&s, rm.hdr + rm.start[3]) == 0
                         && le32(&s, rm.hdr + rm.start[3] + 4) == 0x8000_000c, "VERIF:C12:signed-VERS-lists-supported-versions-ascending");
                (1, 2, 4)
            }
        };
        vassert!(rm.end[i_radi] - rm.start[i_radi] == 4, "VERIF:C11:RADI-is-4-bytes");
        vassert!(rm.end[i_midp] - rm.start[i_midp] == 8, "VERIF:C11:MIDP-is-8-bytes");
        let radi = le32(&s, rm.hdr + rm.start[i_radi]) as u64;
        let midp = le64(&s, rm.hdr + rm.start[i_midp]);
        match version {
            Version::Google => {
                vassert!(midp == secs * 1_000_000 + (nanos as u64) / 1000, "VERIF:C11:classic-midpoint-is-clock-in-microseconds");
                vassert!(radi == 5_000_000, "VERIF:C11:classic-radius-is-5s-in-microseconds");
            }
            Version::RfcDraft13 => {
                vassert!(midp == secs, "VERIF:C11:ietf-midpoint-is-clock-in-seconds");
                vassert!(radi == 5, "VERIF:C11:ietf-radius-is-5s");
            }
        }
        vassert!(rm.end[i_root] - rm.start[i_root] == RL, "VERIF:C02:ROOT-length");
        let k = vany_index(RL);
        vassert!(s[rm.hdr + rm.start[i_root] + k] == root[k], "VERIF:C02:ROOT-is-the-batch-root");
        vcover!(true, "COVER:srep-end");
        core::mem::forget(pk);
        core::mem::forget(out);
        core::mem::forget(key);
    }

    macro_rules! c11_srep {
        ($name:ident, $rl:expr, $sl:expr, $ml:expr, $ver:expr, $max:expr, $unwind:expr) => {
            #[cfg_attr(kani, kani::proof)]
            #[cfg_attr(kani, kani::unwind($unwind))]
            #[cfg_attr(kani, kani::stub(<crate::error::Error as std::convert::From<std::io::Error>>::from, crate::verif_support::stub_error_from_io))]
            #[cfg_attr(not(kani), test)]
            fn $name() {
                srep_body::<$rl, $sl, $ml>($ver, $max);
            }
        };
    }
    //@ family c11_srep props=C11,C02,C12 mode=strict mod=key::online::verif_online needs=src/message.rs must_cover=COVER:srep-end
    //@ harness c11_srep_classic tier=quick shape="classic, clock secs < 2^40 (year ~36800), nanos < 10^9, 64-byte root; all symbolic"
    c11_srep!(c11_srep_classic, 64, 100, 132, Version::Google, 1u64 << 40, 8);
    //@ harness c11_srep_ietf tier=quick shape="IETF, clock secs any u64 < 2^63, nanos < 10^9, 32-byte root; all symbolic"
    c11_srep!(c11_srep_ietf, 32, 96, 128, Version::RfcDraft13, 1u64 << 62, 8);

    //@ family c10_dele props=C10,C02 mode=strict mod=key::online::verif_online needs=src/message.rs must_cover=COVER:dele-end
    //@ harness c10_make_dele tier=quick shape="DELE of an online key with symbolic seed"
    /// DELE = PUBK(online public key), MINT = 0, MAXT = 2^64-1 (so every midpoint is inside).
    #[cfg_attr(kani, kani::proof)]
    #[cfg_attr(kani, kani::unwind(8))]
    #[cfg_attr(kani, kani::stub(<crate::error::Error as std::convert::From<std::io::Error>>::from, crate::verif_support::stub_error_from_io))]
    #[cfg_attr(kani, kani::stub(std::time::SystemTime::now, crate::key::online::verif_online::stub_now_any))]
    #[cfg_attr(not(kani), test)]
    fn c10_make_dele() {
        dalek::model_reset();
        ring::rand::model_reset(None);
        let key = OnlineKey::new();
        vassert!(ring::rand::model_calls() == 1, "VERIF:C10:online-key-seed-comes-from-one-system-random-draw");
        let d = key.make_dele();
        let enc = d.encode().unwrap();
        vassert!(enc.len() == 72, "VERIF:C10:DELE-length");
        let e: [u8; 72] = arr::<72>(&enc);
        let rm = ref_decode(&e, 3);
        vassert!(rm.is_some(), "VERIF:C10:DELE-is-wellformed");
        let rm = rm.unwrap();
        vassert!(rm.n == 3 && rm.tags[0] == T_PUBK && rm.tags[1] == T_MINT && rm.tags[2] == T_MAXT, "VERIF:C10:DELE-is-PUBK-MINT-MAXT");
        vassert!(rm.end[0] - rm.start[0] == 32 && rm.end[1] - rm.start[1] == 8 && rm.end[2] - rm.start[2] == 8, "VERIF:C10:DELE-field-sizes");
        let pk = key.signer.public_key_bytes();
        let got: [u8; 32] = arr::<32>(&e[rm.hdr..rm.hdr + 32]);
        vassert!(dalek::eq32(&got, &arr::<32>(&pk)), "VERIF:C10:DELE-PUBK-is-the-online-public-key");
        vassert!(dalek::eq32(&got, &dalek::model_log().keys[0].pk), "VERIF:C10:online-public-key-is-ed25519-key-of-its-seed");
        vassert!(le64(&e, rm.hdr + 32) == 0, "VERIF:C10:MINT-is-zero");
        vassert!(le64(&e, rm.hdr + 40) == u64::MAX, "VERIF:C10:MAXT-is-max");
        vcover!(true, "COVER:dele-end");
        core::mem::forget(pk);
        core::mem::forget(enc);
        core::mem::forget(d);
        core::mem::forget(key);
    }
}
