
// woven by /verif: make the harness helpers of the private submodules nameable crate-wide
#[cfg(any(kani, feature = "verif_replay"))]
#[allow(unused_imports)]
pub(crate) use self::online::verif_online;
