
// ===========================================================================
// woven by /verif: proof harnesses for src/tag.rs (C05 tag table, ordering)
// ===========================================================================
#[cfg(any(kani, feature = "verif_replay"))]
#[allow(dead_code, unused_imports)]
pub(crate) mod verif_tag {
    use super::*;
    use crate::message::verif_message::{any_tag, known, KNOWN};
    use crate::verif_support::*;
    use crate::{vassert, vcover};

    //@ family c05_tag props=C05,C06 mode=strict mod=tag::verif_tag needs=src/message.rs
    //@ harness c05_tag_from_wire_all_words tier=quick shape="all 2^32 four-byte words" must_cover=COVER:known-word,COVER:unknown-word
    /// from_wire(w) is Ok(t) exactly for the 18 protocol tag words, t's wire value is w, and the
    /// enum's declaration order is the numeric order of the little-endian words.
    #[cfg_attr(kani, kani::proof)]
    #[cfg_attr(kani, kani::unwind(6))]
    #[cfg_attr(not(kani), test)]
    fn c05_tag_from_wire_all_words() {
        let w: [u8; 4] = vany_bytes::<4>();
        let word = u32::from_le_bytes(w);
        let r = Tag::from_wire(&w);
        vcover!(known(word), "COVER:known-word");
        vcover!(!known(word), "COVER:unknown-word");
        vassert!(r.is_ok() == known(word), "VERIF:C05:from-wire-accepts-exactly-the-18-tags");
        if let Ok(t) = r {
            let back = t.wire_value();
            vassert!(back.len() == 4, "VERIF:C05:wire-value-is-4-bytes");
            vassert!(le32(back, 0) == word, "VERIF:C05:wire-value-inverts-from-wire");
            vassert!(KNOWN[t as usize] == word, "VERIF:C05:enum-position-is-numeric-rank-of-wire-word");
        }
    }

    //@ harness c05_tag_from_wire_other_lengths tier=quick shape="byte strings of length 0..=8 except 4" must_cover=COVER:len-not-4
    #[cfg_attr(kani, kani::proof)]
    #[cfg_attr(kani, kani::unwind(10))]
    #[cfg_attr(not(kani), test)]
    fn c05_tag_from_wire_other_lengths() {
        let b: [u8; 8] = vany_bytes::<8>();
        let n = vany_index(9);
        vassume(n != 4);
        let r = Tag::from_wire(&b[..n]);
        vcover!(true, "COVER:len-not-4");
        vassert!(r.is_err(), "VERIF:C05:from-wire-rejects-non-4-byte-input");
    }

    //@ harness c05_tag_order tier=quick shape="all 18x18 tag pairs" must_cover=COVER:lt,COVER:ge
    /// derive(PartialOrd) order == numeric order of the little-endian wire word, for every pair.
    #[cfg_attr(kani, kani::proof)]
    #[cfg_attr(kani, kani::unwind(6))]
    #[cfg_attr(not(kani), test)]
    fn c05_tag_order() {
        let a = any_tag();
        let b = any_tag();
        let wa = le32(a.wire_value(), 0);
        let wb = le32(b.wire_value(), 0);
        vcover!(a < b, "COVER:lt");
        vcover!(a >= b, "COVER:ge");
        vassert!((a < b) == (wa < wb), "VERIF:C05:tag-order-lt-is-numeric-le-order");
        vassert!((a <= b) == (wa <= wb), "VERIF:C05:tag-order-le-is-numeric-le-order");
        vassert!((a == b) == (wa == wb), "VERIF:C05:tag-eq-is-wire-eq");
        let nested = wa == KNOWN[13] || wa == KNOWN[4] || wa == KNOWN[9];
        vassert!(a.is_nested() == nested, "VERIF:C06:nested-tags-are-CERT-DELE-SREP");
    }
}
