
// ===========================================================================
// woven by /verif: proof harnesses for src/message.rs (C05, C06, parts of C07/C08)
// ===========================================================================
#[cfg(any(kani, feature = "verif_replay"))]
#[allow(dead_code, unused_imports)]
pub(crate) mod verif_message {
    use super::*;
    use crate::verif_support::*;
    use crate::{vassert, vcover};

    // ---------------------------------------------------------------------
    // Reference decoder for the Roughtime tag-value format, written from the
    // protocol description (count, offsets, tags, values); shares no code with
    // RtMessage::from_bytes.
    // ---------------------------------------------------------------------
    pub const MAXF: usize = 6;

    /// the 18 known tags as little-endian u32, ascending numeric order
    pub const KNOWN: [u32; 18] = [
        0x00474953, // SIG\0
        0x00524556, // VER\0
        0x00565253, // SRV\0
        0x434e4f4e, // NONC
        0x454c4544, // DELE
        0x48544150, // PATH
        0x49444152, // RADI
        0x4b425550, // PUBK
        0x5044494d, // MIDP
        0x50455253, // SREP
        0x53524556, // VERS
        0x544e494d, // MINT
        0x544f4f52, // ROOT
        0x54524543, // CERT
        0x5458414d, // MAXT
        0x58444e49, // INDX
        0x5a5a5a5a, // ZZZZ
        0xff444150, // PAD\xff
    ];


    pub const T_SIG: u32 = KNOWN[0];
    pub const T_VER: u32 = KNOWN[1];
    pub const T_SRV: u32 = KNOWN[2];
    pub const T_NONC: u32 = KNOWN[3];
    pub const T_DELE: u32 = KNOWN[4];
    pub const T_PATH: u32 = KNOWN[5];
    pub const T_RADI: u32 = KNOWN[6];
    pub const T_PUBK: u32 = KNOWN[7];
    pub const T_MIDP: u32 = KNOWN[8];
    pub const T_SREP: u32 = KNOWN[9];
    pub const T_VERS: u32 = KNOWN[10];
    pub const T_MINT: u32 = KNOWN[11];
    pub const T_ROOT: u32 = KNOWN[12];
    pub const T_CERT: u32 = KNOWN[13];
    pub const T_MAXT: u32 = KNOWN[14];
    pub const T_INDX: u32 = KNOWN[15];
    pub const T_ZZZZ: u32 = KNOWN[16];
    pub const T_PAD: u32 = KNOWN[17];

    #[inline]
    pub fn known(w: u32) -> bool {
        w == KNOWN[0] || w == KNOWN[1] || w == KNOWN[2] || w == KNOWN[3] || w == KNOWN[4]
            || w == KNOWN[5] || w == KNOWN[6] || w == KNOWN[7] || w == KNOWN[8] || w == KNOWN[9]
            || w == KNOWN[10] || w == KNOWN[11] || w == KNOWN[12] || w == KNOWN[13]
            || w == KNOWN[14] || w == KNOWN[15] || w == KNOWN[16] || w == KNOWN[17]
    }

    #[derive(Clone, Copy)]
    pub struct RefMsg {
        pub n: usize,
        /// absolute position in the buffer where the values start
        pub hdr: usize,
        pub tags: [u32; MAXF],
        /// value i is buf[hdr+start[i] .. hdr+end[i]]
        pub start: [usize; MAXF],
        pub end: [usize; MAXF],
    }

    /// `nmax`: the largest field count the caller's shape can make acceptable (keeps the
    /// reference's loops concretely bounded for CBMC).
    pub fn ref_decode(buf: &[u8], nmax: usize) -> Option<RefMsg> {
        let len = buf.len();
        if len < 4 || len % 4 != 0 {
            return None;
        }
        let n64 = le32(buf, 0) as u64;
        let mut m = RefMsg { n: 0, hdr: 4, tags: [0; MAXF], start: [0; MAXF], end: [0; MAXF] };
        if n64 == 0 {
            return Some(m);
        }
        let header = 4 + 4 * (n64 - 1) + 4 * n64;
        if header > len as u64 {
            return None;
        }
        let n = n64 as usize;
        assert!(n <= nmax && nmax <= MAXF, "VERIF-ENV: shape admits more fields than the reference handles");
        let hdr = header as usize;
        let area = len - hdr;
        m.n = n;
        m.hdr = hdr;
        let mut prev = 0usize;
        let mut i = 1;
        while i < nmax {
            if i < n {
                let off = le32(buf, 4 * i) as usize;
                if off % 4 != 0 || off < prev || off > area {
                    return None;
                }
                m.start[i] = off;
                m.end[i - 1] = off;
                prev = off;
            }
            i += 1;
        }
        m.end[n - 1] = area;
        let tag_base = 4 + 4 * (n - 1);
        let mut j = 0;
        while j < nmax {
            if j < n {
                let t = le32(buf, tag_base + 4 * j);
                if !known(t) {
                    return None;
                }
                if j > 0 && t <= m.tags[j - 1] {
                    return None;
                }
                m.tags[j] = t;
            }
            j += 1;
        }
        Some(m)
    }

    /// Compare a decoded RtMessage with the reference's view of the same buffer.
    /// Element equality is checked at a solver-chosen position (no byte loop).
    pub fn same_content(msg: &RtMessage, rm: &RefMsg, buf: &[u8], nmax: usize) {
        vassert!(msg.tags.len() == rm.n, "VERIF:C05:field-count-tags");
        vassert!(msg.values.len() == rm.n, "VERIF:C05:field-count-values");
        let mut i = 0;
        while i < nmax {
            if i < rm.n {
                let w = le32(msg.tags[i].wire_value(), 0);
                vassert!(w == rm.tags[i], "VERIF:C05:tag-equals-reference");
                let vlen = rm.end[i] - rm.start[i];
                vassert!(msg.values[i].len() == vlen, "VERIF:C05:value-length-equals-reference");
                if vlen > 0 {
                    let k = vany_index(vlen);
                    vassert!(
                        msg.values[i][k] == buf[rm.hdr + rm.start[i] + k],
                        "C06:value-bytes-are-the-input-bytes"
                    );
                }
            }
            i += 1;
        }
    }

    /// differential + canonical body for a buffer of L bytes whose count word is `n`
    pub fn diff_body<const L: usize>(n: u32, nmax: usize) {
        let mut buf: [u8; L] = vany_bytes::<L>();
        if L >= 4 {
            buf[0..4].copy_from_slice(&n.to_le_bytes());
        }
        let r = RtMessage::from_bytes(&buf);
        let m = ref_decode(&buf, nmax);
        vcover!(r.is_ok(), "COVER:decode-accepts");
        vcover!(r.is_err(), "COVER:decode-rejects");
        vassert!(r.is_ok() == m.is_some(), "VERIF:C05:accepts-iff-reference-accepts");
        if let (Ok(msg), Some(rm)) = (&r, &m) {
            same_content(msg, rm, &buf, nmax);
        }
        core::mem::forget(r);
    }

    // ---------------------------------------------------------------------
    // Reference encoder (independent of RtMessage::encode): writes the expected
    // wire image of F fields into a fixed buffer.
    // ---------------------------------------------------------------------
    pub fn ref_encode<const F: usize, const TOT: usize>(tags: &[u32; F], lens: &[usize; F], vals: &[u8]) -> [u8; TOT] {
        let mut out = [0u8; TOT];
        out[0..4].copy_from_slice(&(F as u32).to_le_bytes());
        let mut off = 0usize;
        let mut i = 1;
        while i < F {
            off += lens[i - 1];
            out[4 * i..4 * i + 4].copy_from_slice(&(off as u32).to_le_bytes());
            i += 1;
        }
        let tag_base = if F == 0 { 4 } else { 4 + 4 * (F - 1) };
        let mut j = 0;
        while j < F {
            out[tag_base + 4 * j..tag_base + 4 * j + 4].copy_from_slice(&tags[j].to_le_bytes());
            j += 1;
        }
        let vbase = tag_base + 4 * F;
        out[vbase..].copy_from_slice(vals);
        out
    }

    /// A symbolic tag: discriminant 0..=17 (Tag is a fieldless 18-variant enum).
    pub fn any_tag() -> Tag {
        let x = vany_u8();
        vassume(x < 18);
        unsafe { core::mem::transmute::<u8, Tag>(x) }
    }

    /// Build a message through the public API from F symbolic strictly-ascending tags and
    /// values of the given (concrete) lengths with symbolic bytes; check encode(),
    /// encoded_size() and encode_framed() against the reference encoder.
    pub fn builder_body<const F: usize, const VT: usize, const TOT: usize>(lens: [usize; F], fixed: Option<[Tag; F]>, roundtrip: bool) {
        let vals: [u8; VT] = vany_bytes::<VT>();
        let mut tags = [Tag::SIG; F];
        let mut words = [0u32; F];
        let mut i = 0;
        while i < F {
            // symbolic tags cost CBMC ~100 s per field (wire_value() is then one of 18
            // pointers); most shapes therefore fix the tag set to one of the protocol's
            // message layouts and leave all value bytes symbolic
            tags[i] = match fixed {
                Some(t) => t[i],
                None => any_tag(),
            };
            // the protocol's tag order is the numeric order of the little-endian tag word
            words[i] = KNOWN[tags[i] as usize];
            if i > 0 {
                vassume(words[i - 1] < words[i]);
            }
            i += 1;
        }
        let mut msg = RtMessage::with_capacity(F as u32);
        let mut at = 0usize;
        let mut j = 0;
        while j < F {
            let ok = msg.add_field(tags[j], &vals[at..at + lens[j]]);
            vassert!(ok.is_ok(), "VERIF:C05:add-field-accepts-ascending-tag");
            core::mem::forget(ok);
            at += lens[j];
            j += 1;
        }
        vassert!(msg.encoded_size() == TOT, "VERIF:C05:encoded-size");
        let enc = msg.encode().unwrap();
        let exp: [u8; TOT] = ref_encode::<F, TOT>(&words, &lens, &vals);
        vassert!(enc.len() == TOT, "VERIF:C05:encode-length");
        let k = vany_index(TOT);
        vassert!(enc[k] == exp[k], "VERIF:C05:encode-equals-reference-encoding");
        if !roundtrip {
            let fr = msg.encode_framed().unwrap();
            vassert!(fr.len() == TOT + 12, "VERIF:C05:framed-length");
            vassert!(le64(&fr, 0) == u64::from_le_bytes(*b"ROUGHTIM"), "VERIF:C05:framed-magic");
            vassert!(le32(&fr, 8) as usize == TOT, "VERIF:C05:framed-length-field");
            vassert!(fr[12 + k] == exp[k], "VERIF:C05:framed-payload");
            core::mem::forget(fr);
        } else {
            let r = RtMessage::from_bytes(&enc);
            vassert!(r.is_ok(), "VERIF:C05:roundtrip-decodes");
            if let Ok(m2) = &r {
                vassert!(m2.tags.len() == F && m2.values.len() == F, "VERIF:C05:roundtrip-field-count");
                let mut q = 0;
                let mut vat = 0usize;
                while q < F {
                    vassert!(m2.tags[q] == tags[q], "VERIF:C05:roundtrip-tag");
                    vassert!(m2.values[q].len() == lens[q], "VERIF:C05:roundtrip-value-length");
                    if lens[q] > 0 {
                        let e = vany_index(lens[q]);
                        vassert!(m2.values[q][e] == vals[vat + e], "VERIF:C05:roundtrip-value-bytes");
                    }
                    vat += lens[q];
                    q += 1;
                }
            }
            core::mem::forget(r);
        }
        vcover!(true, "COVER:builder-end");
        core::mem::forget(enc);
        core::mem::forget(msg);
    }

    /// add_field must refuse a tag that is not strictly greater than the last one and leave
    /// the message unchanged.
    pub fn addfield_order_body() {
        let t1 = any_tag();
        let t2 = any_tag();
        let v: [u8; 8] = vany_bytes::<8>();
        let mut msg = RtMessage::with_capacity(2);
        let a = msg.add_field(t1, &v[0..4]);
        vassert!(a.is_ok(), "VERIF:C05:first-add-field-ok");
        let b = msg.add_field(t2, &v[4..8]);
        let ascending = KNOWN[t1 as usize] < KNOWN[t2 as usize];
        vcover!(ascending, "COVER:ascending");
        vcover!(!ascending, "COVER:not-ascending");
        vassert!(b.is_ok() == ascending, "VERIF:C05:add-field-ok-iff-strictly-ascending");
        vassert!(msg.num_fields() == if ascending { 2 } else { 1 }, "VERIF:C05:rejected-field-not-added");
        core::mem::forget(a);
        core::mem::forget(b);
        core::mem::forget(msg);
    }

    /// The reference codec is self-consistent: for every buffer the reference decoder accepts
    /// with >= 1 field, the reference encoding of the decoded content is the buffer.  With
    /// (a) from_bytes == reference decoder (c05_diff) and (b) encode == reference encoder
    /// (c05_build) this gives: every accepted non-empty message re-encodes to identical bytes.
    pub fn ref_selfcheck_body<const L: usize>(n: u32, nmax: usize) {
        let mut buf: [u8; L] = vany_bytes::<L>();
        buf[0..4].copy_from_slice(&n.to_le_bytes());
        if let Some(rm) = ref_decode(&buf, nmax) {
            vcover!(true, "COVER:reference-accepts");
            // re-encode field by field, position-wise
            let k = vany_index(L);
            let nf = rm.n;
            let expect: u8 = if k < 4 {
                (nf as u32).to_le_bytes()[k]
            } else if k < 4 + 4 * (nf - 1) {
                let i = (k - 4) / 4 + 1;
                (rm.start[i] as u32).to_le_bytes()[k % 4]
            } else if k < rm.hdr {
                let j = (k - (4 + 4 * (nf - 1))) / 4;
                rm.tags[j].to_le_bytes()[k % 4]
            } else {
                buf[k]
            };
            vassert!(expect == buf[k], "VERIF:C05:reference-codec-self-consistent");
            // the values partition the bytes after the header
            vassert!(rm.start[0] == 0 && rm.end[nf - 1] == L - rm.hdr, "VERIF:C06:values-cover-everything-after-header");
            let mut i = 1;
            while i < nmax {
                if i < nf {
                    vassert!(rm.end[i - 1] == rm.start[i], "VERIF:C06:values-contiguous");
                }
                i += 1;
            }
        }
    }

    macro_rules! c05_diff {
        ($name:ident, $n:expr, $len:expr, $nmax:expr, $unwind:expr) => {
            #[cfg_attr(kani, kani::proof)]
            #[cfg_attr(kani, kani::unwind($unwind))]
            #[cfg_attr(kani, kani::stub(<crate::error::Error as std::convert::From<std::io::Error>>::from, crate::verif_support::stub_error_from_io))]
            #[cfg_attr(not(kani), test)]
            fn $name() {
                diff_body::<$len>($n, $nmax);
            }
        };
    }

    //@ family c05_diff props=C05,C06,C08 mode=strict mod=message::verif_message
    //@ harness c05_diff_n0_l4 tier=quick shape="count=0 len=4"
    c05_diff!(c05_diff_n0_l4, 0, 4, 0, 4);
    //@ harness c05_diff_n0_l12 tier=quick shape="count=0 len=12"
    c05_diff!(c05_diff_n0_l12, 0, 12, 0, 4);
    //@ harness c05_diff_n1_l4 tier=quick shape="count=1 len=4"
    c05_diff!(c05_diff_n1_l4, 1, 4, 1, 4);
    //@ harness c05_diff_n1_l8 tier=quick shape="count=1 len=8"
    c05_diff!(c05_diff_n1_l8, 1, 8, 1, 4);
    //@ harness c05_diff_n1_l16 tier=quick shape="count=1 len=16"
    c05_diff!(c05_diff_n1_l16, 1, 16, 1, 6);
    //@ harness c05_diff_n2_l12 tier=quick shape="count=2 len=12"
    c05_diff!(c05_diff_n2_l12, 2, 12, 2, 5);
    //@ harness c05_diff_n2_l16 tier=quick shape="count=2 len=16"
    c05_diff!(c05_diff_n2_l16, 2, 16, 2, 5);
    //@ harness c05_diff_n2_l24 tier=quick shape="count=2 len=24"
    c05_diff!(c05_diff_n2_l24, 2, 24, 2, 5);
    //@ harness c05_diff_n3_l24 tier=quick shape="count=3 len=24"
    c05_diff!(c05_diff_n3_l24, 3, 24, 3, 6);
    //@ harness c05_diff_n3_l32 tier=quick shape="count=3 len=32"
    c05_diff!(c05_diff_n3_l32, 3, 32, 3, 6);
    //@ harness c05_diff_n4_l44 tier=thorough shape="count=4 len=44 (four tags, 12 value bytes); every byte but the count word symbolic" timeout=900 required=no
    c05_diff!(c05_diff_n4_l44, 4, 44, 4, 7);
    //@ harness c05_diff_n5_l7 tier=quick shape="count=5 len=7 (unaligned)"
    c05_diff!(c05_diff_n5_l7, 5, 7, 0, 4);
    //@ harness c05_diff_n1025_l16 tier=quick shape="count=1025 len=16"
    c05_diff!(c05_diff_n1025_l16, 1025, 16, 0, 8);
    //@ harness c05_diff_nmax_l16 tier=quick shape="count=0xffffffff len=16"
    c05_diff!(c05_diff_nmax_l16, 0xffff_ffff, 16, 0, 8);
    //@ harness c05_diff_n1024_l16 tier=quick shape="count=1024 len=16"
    c05_diff!(c05_diff_n1024_l16, 1024, 16, 0, 8);


    macro_rules! c05_build {
        ($name:ident, $f:expr, $vt:expr, $tot:expr, $lens:expr, $tags:expr, $rt:expr, $unwind:expr) => {
            #[cfg_attr(kani, kani::proof)]
            #[cfg_attr(kani, kani::unwind($unwind))]
            #[cfg_attr(kani, kani::stub(<crate::error::Error as std::convert::From<std::io::Error>>::from, crate::verif_support::stub_error_from_io))]
            #[cfg_attr(not(kani), test)]
            fn $name() {
                builder_body::<$f, $vt, $tot>($lens, $tags, $rt);
            }
        };
    }

    //@ family c05_build props=C05 mode=strict mod=message::verif_message must_cover=COVER:builder-end
    //@ harness c05_build_f1_sym tier=thorough shape="1 field, value 0 B, symbolic tag (all 18)"
    c05_build!(c05_build_f1_sym, 1, 0, 8, [0], None, false, 5);
    //@ harness c05_build_f2_sym tier=thorough shape="2 fields, values 4+0 B, symbolic ascending tags (all 153 pairs)" required=no
    c05_build!(c05_build_f2_sym, 2, 4, 20, [4, 0], None, false, 6);
    //@ harness c05_build_f1_v8 tier=quick shape="[NONC] value 8 B"
    c05_build!(c05_build_f1_v8, 1, 8, 16, [8], Some([Tag::NONC]), false, 5);
    //@ harness c05_build_f2_v4_0 tier=quick shape="[NONC,PAD] values 4+0 B"
    c05_build!(c05_build_f2_v4_0, 2, 4, 20, [4, 0], Some([Tag::NONC, Tag::PAD]), false, 6);
    //@ harness c05_build_f2_v0_8 tier=quick shape="[SIG,DELE] values 0+8 B"
    c05_build!(c05_build_f2_v0_8, 2, 8, 24, [0, 8], Some([Tag::SIG, Tag::DELE]), false, 6);
    //@ harness c05_build_f3_v4_8_4 tier=quick shape="[PUBK,MINT,MAXT] values 4+8+4 B"
    c05_build!(c05_build_f3_v4_8_4, 3, 16, 40, [4, 8, 4], Some([Tag::PUBK, Tag::MINT, Tag::MAXT]), false, 7);
    //@ harness c05_build_f4 tier=quick shape="[VER,SRV,NONC,ZZZZ] values 4+0+8+4 B"
    c05_build!(c05_build_f4, 4, 16, 48, [4, 0, 8, 4], Some([Tag::VER, Tag::SRV, Tag::NONC, Tag::ZZZZ]), false, 8);
    //@ harness c05_build_f5 tier=thorough shape="[VER,RADI,MIDP,VERS,ROOT] values 4+4+8+8+4 B"
    c05_build!(c05_build_f5, 5, 28, 68, [4, 4, 8, 8, 4], Some([Tag::VER, Tag::RADI, Tag::MIDP, Tag::VERS, Tag::ROOT]), false, 9);
    //@ harness c05_build_f6 tier=quick shape="[SIG,NONC,PATH,SREP,CERT,INDX] values 4+4+0+8+4+4 B"
    c05_build!(c05_build_f6, 6, 24, 72, [4, 4, 0, 8, 4, 4], Some([Tag::SIG, Tag::NONC, Tag::PATH, Tag::SREP, Tag::CERT, Tag::INDX]), false, 10);

    //@ family c05_roundtrip props=C05 mode=strict mod=message::verif_message must_cover=COVER:builder-end
    //@ harness c05_roundtrip_f1_v4 tier=quick shape="[NONC] value 4 B"
    c05_build!(c05_roundtrip_f1_v4, 1, 4, 12, [4], Some([Tag::NONC]), true, 5);
    //@ harness c05_roundtrip_f2_v4_4 tier=quick shape="[NONC,PAD] values 4+4 B"
    c05_build!(c05_roundtrip_f2_v4_4, 2, 8, 24, [4, 4], Some([Tag::NONC, Tag::PAD]), true, 6);
    //@ harness c05_roundtrip_f3_v0_4_8 tier=quick shape="[RADI,MIDP,ROOT] values 0+4+8 B"
    c05_build!(c05_roundtrip_f3_v0_4_8, 3, 12, 36, [0, 4, 8], Some([Tag::RADI, Tag::MIDP, Tag::ROOT]), true, 7);

    //@ family c05_addfield props=C05 mode=strict mod=message::verif_message must_cover=COVER:ascending,COVER:not-ascending
    //@ harness c05_addfield_order tier=quick shape="two symbolic tags"
    #[cfg_attr(kani, kani::proof)]
    #[cfg_attr(kani, kani::unwind(4))]
    #[cfg_attr(not(kani), test)]
    fn c05_addfield_order() {
        addfield_order_body();
    }

    macro_rules! c05_refself {
        ($name:ident, $n:expr, $len:expr, $nmax:expr) => {
            #[cfg_attr(kani, kani::proof)]
            #[cfg_attr(kani, kani::unwind(8))]
            #[cfg_attr(not(kani), test)]
            fn $name() {
                ref_selfcheck_body::<$len>($n, $nmax);
            }
        };
    }
    //@ family c05_refself props=C05,C06 mode=strict mod=message::verif_message must_cover=COVER:reference-accepts
    //@ harness c05_refself_n1_l16 tier=quick shape="count=1 len=16"
    c05_refself!(c05_refself_n1_l16, 1, 16, 1);
    //@ harness c05_refself_n2_l24 tier=quick shape="count=2 len=24"
    c05_refself!(c05_refself_n2_l24, 2, 24, 2);
    //@ harness c05_refself_n3_l32 tier=quick shape="count=3 len=32"
    c05_refself!(c05_refself_n3_l32, 3, 32, 3);
    //@ harness c05_refself_n4_l48 tier=quick shape="count=4 len=48"
    c05_refself!(c05_refself_n4_l48, 4, 48, 4);
    //@ harness c05_refself_n6_l72 tier=quick shape="count=6 len=72"
    c05_refself!(c05_refself_n6_l72, 6, 72, 6);

    // ---------------------------------------------------------------------
    // C06: Display of a decoded message never panics, whatever its nested values contain
    // ---------------------------------------------------------------------

    /// One field with a (nested) tag whose value is VL bytes: the first PL words are concrete
    /// (the nested header: count, offsets, tags), the remaining bytes are symbolic.  A message
    /// with these tags/values is exactly what from_bytes yields for the corresponding wire
    /// image (c05_diff), so building it through add_field avoids the cost of the decode merge.
    /// A *symbolic* nested count is out of reach (from_bytes on a 4-byte symbolic buffer ran
    /// out of 16 GB): the count classes 0, 1, 2.., >1024 are covered by representatives.
    pub fn display_body<const VL: usize, const PL: usize>(outer: Tag, prefix: [u32; PL]) {
        let mut v: [u8; VL] = vany_bytes::<VL>();
        let mut i = 0;
        while i < PL {
            v[4 * i..4 * i + 4].copy_from_slice(&prefix[i].to_le_bytes());
            i += 1;
        }
        let mut msg = RtMessage::with_capacity(1);
        msg.add_field(outer, &v).unwrap();
        let s = msg.to_string(1);
        vcover!(true, "COVER:display-returned");
        vassert!(s.len() > 0, "VERIF:C06:display-returns-text");
        core::mem::forget(s);
        core::mem::forget(msg);
    }

    macro_rules! c06_display {
        ($name:ident, $vl:expr, $pl:expr, $tag:expr, $prefix:expr, $unwind:expr) => {
            #[cfg_attr(kani, kani::proof)]
            #[cfg_attr(kani, kani::unwind($unwind))]
            #[cfg_attr(kani, kani::stub(<crate::error::Error as std::convert::From<std::io::Error>>::from, crate::verif_support::stub_error_from_io))]
            #[cfg_attr(not(kani), test)]
            fn $name() {
                display_body::<$vl, $pl>($tag, $prefix);
            }
        };
    }

    //@ family c06_display props=C06,C08 mode=strict mod=message::verif_message must_cover=COVER:display-returned
    //@ harness c06_display_srep_garbage4 tier=quick shape="[SREP] value = ff ff ff ff"
    c06_display!(c06_display_srep_garbage4, 4, 1, Tag::SREP, [0xffff_ffff], 20);
    //@ harness c06_display_cert_count0 tier=quick shape="[CERT] value = count 0 + 4 symbolic bytes"
    c06_display!(c06_display_cert_count0, 8, 1, Tag::CERT, [0], 20);
    //@ harness c06_display_cert_empty tier=quick shape="[CERT] value = 0 B"
    c06_display!(c06_display_cert_empty, 0, 0, Tag::CERT, [], 20);
    //@ harness c06_display_cert_unaligned tier=quick shape="[CERT] value = 6 B (count word 1, 2 symbolic bytes)"
    c06_display!(c06_display_cert_unaligned, 6, 1, Tag::CERT, [1], 20);
    //@ harness c06_display_nonc tier=quick shape="[NONC] value = 8 symbolic bytes (not nested)"
    c06_display!(c06_display_nonc, 8, 0, Tag::NONC, [], 20);
    //@ harness c06_display_dele_one_field tier=quick shape="[DELE] value = {count 1, PUBK, 4 symbolic bytes}"
    c06_display!(c06_display_dele_one_field, 12, 2, Tag::DELE, [1, T_PUBK], 20);
    //@ harness c06_display_srep_unknown_tag tier=thorough shape="[SREP] value = {count 1, unknown tag word} (8 B, concrete)" required=no
    c06_display!(c06_display_srep_unknown_tag, 8, 2, Tag::SREP, [1, 0x1234_5678], 24);
    //@ harness c06_display_cert_nested_garbage tier=quick shape="[CERT] value = {count 1, DELE, ff ff ff ff} (two levels)"
    c06_display!(c06_display_cert_nested_garbage, 12, 3, Tag::CERT, [1, T_DELE, 0xffff_ffff], 20);
    //@ harness c06_display_srep_two_fields tier=thorough shape="[SREP] value = {count 2, offset 4, RADI, MIDP, 4+4 symbolic bytes}" required=no
    c06_display!(c06_display_srep_two_fields, 24, 4, Tag::SREP, [2, 4, T_RADI, T_MIDP], 30);
    //@ harness c06_display_srep_bad_offset tier=thorough shape="[SREP] value = {count 2, offset 0x40, RADI, MIDP} (16 B, concrete)" required=no
    c06_display!(c06_display_srep_bad_offset, 16, 4, Tag::SREP, [2, 0x40, T_RADI, T_MIDP], 30);
    //@ harness c06_display_cert_sig_dele tier=thorough shape="[CERT] value = {count 2, offset 4, SIG, DELE, 4 symbolic, nested count 0}" required=no
    c06_display!(c06_display_cert_sig_dele, 24, 4, Tag::CERT, [2, 4, T_SIG, T_DELE], 30);
}
