
// ===========================================================================
// woven by /verif: proof harnesses for src/merkle.rs (C04; C02 inclusion proof per protocol)
// ===========================================================================
#[cfg(any(kani, feature = "verif_replay"))]
#[allow(dead_code, unused_imports)]
pub(crate) mod verif_merkle {
    use super::*;
    use crate::verif_support::*;
    use crate::{vassert, vcover};
    use ring::blk;

    /// loop-free equality of two byte strings of (concrete) length 32 or 64
    pub fn same(a: &[u8], b: &[u8]) -> bool {
        if a.len() != b.len() {
            return false;
        }
        if a.len() == 64 {
            blk::eq64(a.try_into().unwrap(), b.try_into().unwrap())
        } else if a.len() == 32 {
            blk::eq32(a.try_into().unwrap(), b.try_into().unwrap())
        } else {
            false
        }
    }

    pub fn depth_of(n: usize) -> usize {
        let mut d = 0;
        let mut c = 1;
        while c < n {
            c *= 2;
            d += 1;
        }
        d
    }

    /// Independent verifier written from the protocol descriptions: leaf hash H(0x00 || leaf),
    /// node hash H(0x01 || left || right), the index bit selects the side, all hash values are
    /// W bytes wide (classic: 64 = SHA-512; IETF draft-13: 32 = first 32 bytes of SHA-512 *at
    /// every node*), PATH is a multiple of W bytes.
    pub fn spec_root<const W: usize>(leaf: &[u8], mut index: usize, path: &[u8], max_depth: usize) -> Option<[u8; W]> {
        if path.len() % W != 0 || path.len() / W > max_depth {
            return None;
        }
        let depth = path.len() / W;
        let mut inp = [0u8; 72];
        inp[1..1 + leaf.len()].copy_from_slice(leaf);
        let full = ring::digest::model_hash(&inp[..1 + leaf.len()]);
        let mut h = [0u8; W];
        h.copy_from_slice(&full[..W]);
        let mut lvl = 0;
        while lvl < max_depth {
            if lvl < depth {
                let sib = &path[lvl * W..lvl * W + W];
                let mut node = [0u8; 129];
                node[0] = 0x01;
                if index & 1 == 0 {
                    node[1..1 + W].copy_from_slice(&h);
                    node[1 + W..1 + 2 * W].copy_from_slice(sib);
                } else {
                    node[1..1 + W].copy_from_slice(sib);
                    node[1 + W..1 + 2 * W].copy_from_slice(&h);
                }
                let full = ring::digest::model_hash(&node[..1 + 2 * W]);
                h.copy_from_slice(&full[..W]);
                index >>= 1;
            }
            lvl += 1;
        }
        if index != 0 {
            return None;
        }
        Some(h)
    }

    fn build<const N: usize, const LL: usize>(version: Version, leaves: &[[u8; LL]; N]) -> (MerkleTree, Vec<u8>) {
        let mut tree = MerkleTree::new(version);
        let mut i = 0;
        while i < N {
            tree.push_leaf(&leaves[i]);
            i += 1;
        }
        let root = tree.compute_root();
        (tree, root)
    }

    /// completeness: the issued (index, path) recompute the root, under the repository's own
    /// verifier and (C02) under the independent protocol verifier with the protocol's widths.
    /// EL = effective leaf length (<= LL; 0 gives empty leaves), `equal`: leaf 1 := leaf 0.
    pub fn complete_body<const N: usize, const LL: usize, const EL: usize, const W: usize>(version: Version, idx: usize, equal: bool) {
        ring::digest::model_reset(false);
        let mut leaves: [[u8; LL]; N] = [[0u8; LL]; N].map(|_| vany_bytes::<LL>());
        if equal && N > 1 {
            leaves[1] = leaves[0];
        }
        let mut tree = MerkleTree::new(version);
        let mut i = 0;
        while i < N {
            tree.push_leaf(&leaves[i][..EL]);
            i += 1;
        }
        let root = tree.compute_root();
        let path = tree.get_paths(idx);
        let again = tree.root_from_paths(idx, &leaves[idx][..EL], &path);
        vassert!(same(&again, &root), "VERIF:C04:issued-path-recomputes-the-root");
        let d = depth_of(N);
        vassert!(path.len() % root.len() == 0 || version == Version::RfcDraft13, "VERIF:C04:path-is-whole-hash-values");
        vcover!(true, "COVER:merkle-end");
        // ---- protocol conformance (C02): widths and the independent verifier
        vassert!(root.len() == W, "VERIF:C02:root-width-is-the-protocols-hash-width");
        vassert!(path.len() == d * W, "VERIF:C02:path-length-is-depth-times-protocol-hash-width");
        let spec = spec_root::<W>(&leaves[idx][..EL], idx, &path, 3);
        vassert!(spec.is_some(), "VERIF:C02:independent-verifier-accepts-path-shape");
        if let Some(sr) = spec {
            vassert!(same(&sr, &root), "VERIF:C02:independent-protocol-verifier-recomputes-the-signed-root");
        }
        vcover!(true, "COVER:merkle-c02-end");
        core::mem::forget(path);
        core::mem::forget(again);
        core::mem::forget(root);
        core::mem::forget(tree);
    }

    /// binding: with H collision-free on the queries of this run and pairwise distinct leaves,
    /// nothing but (leaf_i, i, path_i) recomputes the root.
    pub fn bind_body<const N: usize, const LL: usize>(version: Version, idx: usize, which: u8) {
        ring::digest::model_reset(true);
        let leaves: [[u8; LL]; N] = [[0u8; LL]; N].map(|_| vany_bytes::<LL>());
        let mut a = 0;
        while a < N {
            let mut b = a + 1;
            while b < N {
                vassume(leaves[a] != leaves[b]);
                b += 1;
            }
            a += 1;
        }
        let (tree, root) = build::<N, LL>(version, &leaves);
        let path = tree.get_paths(idx);
        let w = if path.is_empty() { 64 } else { path.len() / depth_of(N) };
        let d = depth_of(N);
        if which == 0 {
            // any other in-range index
            let j = vany_index(1usize << d);
            vassume(j != idx);
            let r = tree.root_from_paths(j, &leaves[idx], &path);
            vassert!(!same(&r, &root), "VERIF:C04:other-index-does-not-recompute-root");
            core::mem::forget(r);
        } else if which == 1 {
            // another leaf
            let other: [u8; LL] = vany_bytes::<LL>();
            vassume(other != leaves[idx]);
            let r = tree.root_from_paths(idx, &other, &path);
            vassert!(!same(&r, &root), "VERIF:C04:other-leaf-does-not-recompute-root");
            core::mem::forget(r);
        } else if which == 2 {
            // one path byte changed
            if !path.is_empty() {
                let mut p2 = path.clone();
                let k = vany_index(p2.len());
                let delta = vany_u8();
                vassume(delta != 0);
                p2[k] ^= delta;
                let r = tree.root_from_paths(idx, &leaves[idx], &p2);
                vassert!(!same(&r, &root), "VERIF:C04:changed-path-does-not-recompute-root");
                core::mem::forget(r);
                core::mem::forget(p2);
            }
        } else if which == 3 {
            // one element appended
            let extra: [u8; 64] = vany_bytes::<64>();
            let mut p2 = path.clone();
            p2.extend_from_slice(&extra[..w]);
            let r = tree.root_from_paths(idx, &leaves[idx], &p2);
            vassert!(!same(&r, &root), "VERIF:C04:extended-path-does-not-recompute-root");
            core::mem::forget(r);
            core::mem::forget(p2);
        } else {
            // last element removed
            if !path.is_empty() {
                let p2 = &path[..path.len() - w];
                let r = tree.root_from_paths(idx, &leaves[idx], p2);
                vassert!(!same(&r, &root), "VERIF:C04:truncated-path-does-not-recompute-root");
                core::mem::forget(r);
            }
        }
        vcover!(true, "COVER:merkle-end");
        core::mem::forget(path);
        core::mem::forget(root);
        core::mem::forget(tree);
    }

    /// reuse: reset() then a second batch on the same object gives the same root and paths as
    /// a fresh tree (same hash function).
    pub fn reuse_body<const N1: usize, const N2: usize, const LL: usize>(version: Version, idx: usize) {
        ring::digest::model_reset(false);
        let first: [[u8; LL]; N1] = [[0u8; LL]; N1].map(|_| vany_bytes::<LL>());
        let second: [[u8; LL]; N2] = [[0u8; LL]; N2].map(|_| vany_bytes::<LL>());
        let mut used = MerkleTree::new(version);
        let mut i = 0;
        while i < N1 {
            used.push_leaf(&first[i]);
            i += 1;
        }
        let r0 = used.compute_root();
        core::mem::forget(r0);
        used.reset();
        let mut j = 0;
        while j < N2 {
            used.push_leaf(&second[j]);
            j += 1;
        }
        let r_used = used.compute_root();
        let p_used = used.get_paths(idx);
        let (fresh, r_fresh) = build::<N2, LL>(version, &second);
        let p_fresh = fresh.get_paths(idx);
        vassert!(same(&r_used, &r_fresh), "VERIF:C04:reused-tree-gives-same-root-as-fresh-tree");
        vassert!(p_used.len() == p_fresh.len(), "VERIF:C04:reused-tree-gives-same-path-length-as-fresh-tree");
        if !p_used.is_empty() {
            let k = vany_index(p_used.len());
            vassert!(p_used[k] == p_fresh[k], "VERIF:C04:reused-tree-gives-same-path-as-fresh-tree");
        }
        vcover!(true, "COVER:merkle-end");
        core::mem::forget(p_used);
        core::mem::forget(p_fresh);
        core::mem::forget(r_used);
        core::mem::forget(r_fresh);
        core::mem::forget(used);
        core::mem::forget(fresh);
    }

    macro_rules! c04_complete {
        ($name:ident, $n:expr, $ll:expr, $el:expr, $w:expr, $ver:expr, $idx:expr, $eq:expr, $unwind:expr) => {
            #[cfg_attr(kani, kani::proof)]
            #[cfg_attr(kani, kani::unwind($unwind))]
            #[cfg_attr(not(kani), test)]
            fn $name() {
                complete_body::<$n, $ll, $el, $w>($ver, $idx, $eq);
            }
        };
    }
    macro_rules! c04_bind {
        ($name:ident, $n:expr, $ll:expr, $ver:expr, $idx:expr, $which:expr, $unwind:expr) => {
            #[cfg_attr(kani, kani::proof)]
            #[cfg_attr(kani, kani::unwind($unwind))]
            #[cfg_attr(not(kani), test)]
            fn $name() {
                bind_body::<$n, $ll>($ver, $idx, $which);
            }
        };
    }
    macro_rules! c04_reuse {
        ($name:ident, $n1:expr, $n2:expr, $ll:expr, $ver:expr, $idx:expr, $unwind:expr) => {
            #[cfg_attr(kani, kani::proof)]
            #[cfg_attr(kani, kani::unwind($unwind))]
            #[cfg_attr(not(kani), test)]
            fn $name() {
                reuse_body::<$n1, $n2, $ll>($ver, $idx);
            }
        };
    }

    //@ family c04_complete props=C04,C02 mode=strict mod=merkle::verif_merkle must_cover=COVER:merkle-end,C02/COVER:merkle-c02-end
    //@ harness c04_complete_google_n1_i0 tier=quick shape="classic, 1 leaf of 8 symbolic bytes, index 0"
    c04_complete!(c04_complete_google_n1_i0, 1, 8, 8, 64, Version::Google, 0, false, 12);
    //@ harness c04_complete_google_n2_i1 tier=quick shape="classic, 2 leaves of 8 symbolic bytes, index 1"
    c04_complete!(c04_complete_google_n2_i1, 2, 8, 8, 64, Version::Google, 1, false, 12);
    //@ harness c04_complete_google_n2_i0 tier=quick shape="classic, 2 leaves of 4 symbolic bytes, index 0"
    c04_complete!(c04_complete_google_n2_i0, 2, 4, 4, 64, Version::Google, 0, false, 12);
    //@ harness c04_complete_google_n2_equal tier=quick shape="classic, 2 equal leaves, index 1"
    c04_complete!(c04_complete_google_n2_equal, 2, 4, 4, 64, Version::Google, 1, true, 12);
    //@ harness c04_complete_google_n2_empty tier=quick shape="classic, 2 empty (hence equal) leaves, index 0"
    c04_complete!(c04_complete_google_n2_empty, 2, 1, 0, 64, Version::Google, 0, false, 12);
    //@ harness c04_complete_google_n3_i2 tier=thorough shape="classic, 3 leaves (padded level), index 2" required=no timeout=800
    c04_complete!(c04_complete_google_n3_i2, 3, 4, 4, 64, Version::Google, 2, false, 12);
    //@ harness c04_complete_google_n3_i0 tier=thorough shape="classic, 3 leaves, index 0" required=no timeout=800
    c04_complete!(c04_complete_google_n3_i0, 3, 4, 4, 64, Version::Google, 0, false, 12);
    //@ harness c04_complete_google_n4_i3 tier=thorough shape="classic, 4 leaves, index 3" required=no timeout=800
    c04_complete!(c04_complete_google_n4_i3, 4, 4, 4, 64, Version::Google, 3, false, 13);
    //@ harness c04_complete_google_n5_i4 tier=thorough shape="classic, 5 leaves (two padded levels), index 4" required=no timeout=800
    c04_complete!(c04_complete_google_n5_i4, 5, 4, 4, 64, Version::Google, 4, false, 14);
    //@ harness c04_complete_ietf_n1_i0 tier=quick shape="IETF, 1 leaf of 8 symbolic bytes, index 0"
    c04_complete!(c04_complete_ietf_n1_i0, 1, 8, 8, 32, Version::RfcDraft13, 0, false, 12);
    //@ harness c04_complete_ietf_n2_i0 tier=quick shape="IETF, 2 leaves, index 0"
    c04_complete!(c04_complete_ietf_n2_i0, 2, 8, 8, 32, Version::RfcDraft13, 0, false, 12);
    //@ harness c04_complete_ietf_n2_i1 tier=quick shape="IETF, 2 leaves of 4 bytes, index 1"
    c04_complete!(c04_complete_ietf_n2_i1, 2, 4, 4, 32, Version::RfcDraft13, 1, false, 12);
    //@ harness c04_complete_ietf_n3_i2 tier=thorough shape="IETF, 3 leaves (padded level), index 2" required=no timeout=800
    c04_complete!(c04_complete_ietf_n3_i2, 3, 4, 4, 32, Version::RfcDraft13, 2, false, 12);
    //@ harness c04_complete_ietf_n3_i1 tier=thorough shape="IETF, 3 leaves, index 1" required=no timeout=800
    c04_complete!(c04_complete_ietf_n3_i1, 3, 4, 4, 32, Version::RfcDraft13, 1, false, 12);
    //@ harness c04_complete_ietf_n4_i2 tier=thorough shape="IETF, 4 leaves, index 2" required=no timeout=800
    c04_complete!(c04_complete_ietf_n4_i2, 4, 4, 4, 32, Version::RfcDraft13, 2, false, 13);

    //@ family c04_bind props=C04 mode=strict mod=merkle::verif_merkle must_cover=COVER:merkle-end
    //@ harness c04_bind_google_n2_i1_index tier=quick shape="classic, 2 distinct leaves, index 1: any other index"
    c04_bind!(c04_bind_google_n2_i1_index, 2, 4, Version::Google, 1, 0, 12);
    //@ harness c04_bind_google_n2_i0_leaf tier=quick shape="classic, 2 distinct leaves, index 0: any other leaf"
    c04_bind!(c04_bind_google_n2_i0_leaf, 2, 4, Version::Google, 0, 1, 12);
    //@ harness c04_bind_google_n2_i1_changed tier=quick shape="classic, 2 distinct leaves, index 1: any single path byte changed"
    c04_bind!(c04_bind_google_n2_i1_changed, 2, 4, Version::Google, 1, 2, 12);
    //@ harness c04_bind_google_n2_i0_appended tier=quick shape="classic, 2 distinct leaves, index 0: any element appended"
    c04_bind!(c04_bind_google_n2_i0_appended, 2, 4, Version::Google, 0, 3, 12);
    //@ harness c04_bind_google_n2_i1_removed tier=quick shape="classic, 2 distinct leaves, index 1: last element removed"
    c04_bind!(c04_bind_google_n2_i1_removed, 2, 4, Version::Google, 1, 4, 12);
    //@ harness c04_bind_ietf_n2_i0_index tier=quick shape="IETF, 2 distinct leaves, index 0: any other index"
    c04_bind!(c04_bind_ietf_n2_i0_index, 2, 4, Version::RfcDraft13, 0, 0, 12);
    //@ harness c04_bind_ietf_n2_i1_changed tier=quick shape="IETF, 2 distinct leaves, index 1: any single path byte changed"
    c04_bind!(c04_bind_ietf_n2_i1_changed, 2, 4, Version::RfcDraft13, 1, 2, 12);
    //@ harness c04_bind_google_n3_i2_index tier=thorough timeout=800 shape="classic, 3 distinct leaves, index 2: any other index" required=no
    c04_bind!(c04_bind_google_n3_i2_index, 3, 4, Version::Google, 2, 0, 12);
    //@ harness c04_bind_google_n3_i0_changed tier=thorough timeout=800 shape="classic, 3 distinct leaves, index 0: any single path byte changed" required=no
    c04_bind!(c04_bind_google_n3_i0_changed, 3, 4, Version::Google, 0, 2, 12);
    //@ harness c04_bind_ietf_n3_i1_leaf tier=thorough timeout=800 shape="IETF, 3 distinct leaves, index 1: any other leaf" required=no
    c04_bind!(c04_bind_ietf_n3_i1_leaf, 3, 4, Version::RfcDraft13, 1, 1, 12);

    //@ family c04_reuse props=C04 mode=strict mod=merkle::verif_merkle must_cover=COVER:merkle-end
    //@ harness c04_reuse_google_2_then_1 tier=quick shape="classic, batch of 2 then batch of 1 on one tree, index 0"
    c04_reuse!(c04_reuse_google_2_then_1, 2, 1, 4, Version::Google, 0, 12);
    //@ harness c04_reuse_google_1_then_2 tier=quick shape="classic, batch of 1 then batch of 2 on one tree, index 1" timeout=600
    c04_reuse!(c04_reuse_google_1_then_2, 1, 2, 4, Version::Google, 1, 12);
    //@ harness c04_reuse_ietf_2_then_2 tier=quick shape="IETF, batch of 2 then batch of 2 on one tree, index 0" timeout=600 required=no
    c04_reuse!(c04_reuse_ietf_2_then_2, 2, 2, 4, Version::RfcDraft13, 0, 12);
    //@ harness c04_reuse_google_3_then_2 tier=thorough shape="classic, batch of 3 then batch of 2, index 1" required=no timeout=800
    c04_reuse!(c04_reuse_google_3_then_2, 3, 2, 4, Version::Google, 1, 12);
    //@ harness c04_reuse_ietf_2_then_3 tier=thorough shape="IETF, batch of 2 then batch of 3, index 2" required=no timeout=800
    c04_reuse!(c04_reuse_ietf_2_then_3, 2, 3, 4, Version::RfcDraft13, 2, 12);
    //@ harness c04_reuse_google_1_then_3 tier=thorough shape="classic, batch of 1 then batch of 3, index 0" required=no timeout=800
    c04_reuse!(c04_reuse_google_1_then_3, 1, 3, 4, Version::Google, 0, 12);

    /// Representation invariant behind tree reuse: after reset() *every* level is empty (compute_root
    /// appends to the inner levels and get_paths walks levels until an empty one, so a stale inner
    /// node from an earlier, larger batch would corrupt the next batch).  One step from any batch
    /// shape covers histories of any length.
    pub fn reset_body<const N: usize, const LL: usize>(version: Version) {
        ring::digest::model_reset(false);
        let leaves: [[u8; LL]; N] = [[0u8; LL]; N].map(|_| vany_bytes::<LL>());
        let (mut tree, root) = build::<N, LL>(version, &leaves);
        core::mem::forget(root);
        tree.reset();
        vassert!(tree.is_empty(), "VERIF:C04+C02:reset-empties-the-leaf-level");
        let mut l = 0;
        while l < 4 {
            if l < tree.levels.len() {
                vassert!(tree.levels[l].is_empty(), "VERIF:C04+C02:reset-empties-every-level");
            }
            l += 1;
        }
        vcover!(tree.levels.len() >= 2, "COVER:merkle-end");
        core::mem::forget(tree);
    }

    macro_rules! c04_reset {
        ($name:ident, $n:expr, $ver:expr, $unwind:expr) => {
            #[cfg_attr(kani, kani::proof)]
            #[cfg_attr(kani, kani::unwind($unwind))]
            #[cfg_attr(not(kani), test)]
            fn $name() {
                reset_body::<$n, 4>($ver);
            }
        };
    }
    //@ family c04_reset props=C04,C02 mode=strict mod=merkle::verif_merkle must_cover=COVER:merkle-end
    //@ harness c04_reset_after_3_google tier=quick shape="classic, batch of 3 (two inner levels), then reset: all levels empty" timeout=600
    c04_reset!(c04_reset_after_3_google, 3, Version::Google, 12);
    //@ harness c04_reset_after_2_ietf tier=quick shape="IETF, batch of 2, then reset: all levels empty"
    c04_reset!(c04_reset_after_2_ietf, 2, Version::RfcDraft13, 12);

    /// A path extended by EXTRA (< hash width) arbitrary bytes must not be accepted as a proof:
    /// the verifier either refuses it (its length assertion: a panic, which this family treats as
    /// the rejection) or recomputes a different root.
    pub fn partial_body<const N: usize, const LL: usize, const EXTRA: usize>(version: Version, idx: usize) {
        ring::digest::model_reset(true);
        let leaves: [[u8; LL]; N] = [[0u8; LL]; N].map(|_| vany_bytes::<LL>());
        let extra: [u8; EXTRA] = vany_bytes::<EXTRA>();
        let (tree, root) = build::<N, LL>(version, &leaves);
        let mut p2 = tree.get_paths(idx);
        p2.extend_from_slice(&extra);
        vcover!(true, "COVER:forged-path-built");
        let r = tree.root_from_paths(idx, &leaves[idx], &p2);
        vassert!(!same(&r, &root), "VERIF:C04:path-with-stray-trailing-bytes-does-not-recompute-root");
        core::mem::forget(r);
        core::mem::forget(p2);
        core::mem::forget(root);
        core::mem::forget(tree);
    }
    macro_rules! c04_partial {
        ($name:ident, $n:expr, $extra:expr, $ver:expr, $idx:expr) => {
            #[cfg_attr(kani, kani::proof)]
            #[cfg_attr(kani, kani::unwind(12))]
            #[cfg_attr(not(kani), test)]
            fn $name() {
                partial_body::<$n, 4, $extra>($ver, $idx);
            }
        };
    }
    //@ family c04_partial props=C04 mode=panics-ok mod=merkle::verif_merkle must_cover=COVER:forged-path-built
    //@ harness c04_partial_google_n1_plus1 tier=quick shape="classic, 1 leaf, empty path extended by 1 arbitrary byte"
    c04_partial!(c04_partial_google_n1_plus1, 1, 1, Version::Google, 0);
    //@ harness c04_partial_ietf_n2_plus16 tier=quick shape="IETF, 2 leaves, path extended by 16 arbitrary bytes (half a hash value)"
    c04_partial!(c04_partial_ietf_n2_plus16, 2, 16, Version::RfcDraft13, 1);
    //@ harness c04_partial_google_n2_plus63 tier=quick shape="classic, 2 leaves, path extended by 63 arbitrary bytes"
    c04_partial!(c04_partial_google_n2_plus63, 2, 63, Version::Google, 0);
}
