
// ===========================================================================
// woven by /verif: proof harnesses for src/responder.rs (C02, C09, C08, C07 reply size, C11 clock, C17 wiring)
// ===========================================================================
#[cfg(any(kani, feature = "verif_replay"))]
#[allow(dead_code, unused_imports)]
pub(crate) mod verif_responder {
    use super::*;
    use crate::key::verif_online::{arr, online_pk, SIGN_CTX};
    use crate::merkle::verif_merkle::{depth_of, same, spec_root};
    use crate::message::verif_message::*;
    use crate::stats::AggregatedStats;
    use crate::verif_support::*;
    use crate::{vassert, vcover};
    use ed25519_dalek as dalek;
    use std::net::{IpAddr, Ipv4Addr};
    use std::time::{Duration, UNIX_EPOCH};

    /// the model clock: SystemTime::now() is a syscall; the harness pins it to an arbitrary instant
    pub static mut NOW_SECS: u64 = 0;
    pub static mut NOW_NANOS: u32 = 0;
    pub static mut NOW_CALLS: u32 = 0;
    pub fn stub_now() -> SystemTime {
        unsafe {
            NOW_CALLS += 1;
            UNIX_EPOCH + Duration::new(NOW_SECS, NOW_NANOS)
        }
    }

    /// Kani 0.68 cannot compile std::thread::current() (internal compiler error in its intrinsics
    /// pass on this toolchain).  send_responses names it only inside the arguments of debug!(),
    /// which are not evaluated at the log level of these harnesses (Off); reaching the stub is
    /// reported as an environment-model limit (exit 2), never as a pass.
    pub fn stub_thread_current() -> std::thread::Thread {
        panic!("VERIF-ENV: thread::current() reached (log level above Off is outside this harness)")
    }

    pub fn mk_responder(version: Version, seed: &[u8; 32], grease_pct: u8, grease_seed: [u8; 16]) -> Responder {
        let mut ltk = LongTermKey::new(seed);
        let online_key = OnlineKey::new();
        let cert_bytes = ltk.make_cert(&version, &online_key).encode().unwrap();
        Responder {
            version,
            online_key,
            long_term_public_key: String::new(),
            cert_bytes,
            requests: Vec::with_capacity(4),
            merkle: MerkleTree::new(version),
            grease: crate::grease::verif_grease::grease_with_seed(grease_pct, grease_seed),
            thread_id: String::new(),
        }
    }

    /// accessors for the server-level harness (the fields are private to this module)
    pub fn queued(r: &Responder) -> &Vec<(Vec<u8>, SocketAddr)> {
        &r.requests
    }
    pub fn version_of(r: &Responder) -> Version {
        r.version
    }

    pub fn addr(i: usize) -> SocketAddr {
        SocketAddr::new(IpAddr::V4(Ipv4Addr::new(192, 0, 2, 10 + i as u8)), 40000 + i as u16)
    }

    /// One batch of K requests (nonces of NL symbolic bytes, leaves of LL symbolic bytes) through
    /// reset / add_*_request / send_responses with the scripted socket.  W = protocol hash width,
    /// RL = expected reply length (excluding the 12-byte IETF frame).
    pub fn batch_body<const K: usize, const NL: usize, const LL: usize, const W: usize, const RL: usize>(
        version: Version,
        same_nonce: bool,
        fail_mask: u32,
    ) {
        batch_body_opt::<K, NL, LL, W, RL>(version, same_nonce, fail_mask, false)
    }

    /// `light`: only the pairing obligations of C09 (count, destination, echoed nonce, index); the
    /// signature / certificate / inclusion-proof obligations are left to the full harnesses.
    pub fn batch_body_opt<const K: usize, const NL: usize, const LL: usize, const W: usize, const RL: usize>(
        version: Version,
        same_nonce: bool,
        fail_mask: u32,
        light: bool,
    ) {
        dalek::model_reset();
        ring::rand::model_reset(None);
        ring::digest::model_reset(false);
        mio::model_reset();
        mio::world().tx_fail_mask = fail_mask;
        let seed: [u8; 32] = vany_bytes::<32>();
        let secs = vany_u64();
        let nanos = vany_u32();
        vassume(secs < (1u64 << 40));
        vassume(nanos < 1_000_000_000);
        let mut nonces: [[u8; NL]; K] = [[0u8; NL]; K].map(|_| vany_bytes::<NL>());
        let leaves: [[u8; LL]; K] = [[0u8; LL]; K].map(|_| vany_bytes::<LL>());
        if same_nonce && K > 1 {
            nonces[1] = nonces[0];
        }
        unsafe {
            NOW_SECS = secs;
            NOW_NANOS = nanos;
            NOW_CALLS = 0;
        }
        let mut r = mk_responder(version, &seed, 0, [0u8; 16]);
        let nsign_before = dalek::model_log().nsigns;
        let mut stats: Box<dyn ServerStats> = Box::new(AggregatedStats::new());
        let mut sock = UdpSocket::model();

        r.reset();
        vassert!(r.is_empty(), "VERIF:C09:reset-leaves-no-queued-request");
        let mut i = 0;
        while i < K {
            match version {
                Version::Google => r.add_classic_request(nonces[i].to_vec(), addr(i)),
                Version::RfcDraft13 => r.add_ietf_request(&leaves[i], nonces[i].to_vec(), addr(i)),
            }
            i += 1;
        }
        #[cfg(not(kani))]
        let t_before = SystemTime::now();
        r.send_responses(&mut sock, &mut stats);

        // ---- exactly one datagram per request, to its sender, in order
        let w = mio::world();
        vassert!(w.tx.len() == K, "VERIF:C09:exactly-one-datagram-per-accepted-request");
        // (natively the real clock is read: the stub and its call counter exist only under Kani)
        #[cfg(kani)]
        vassert!(unsafe { NOW_CALLS } == 1, "VERIF:C11:clock-read-once-per-batch");
        let log = dalek::model_log();
        vassert!(log.nsigns == nsign_before + 1, "VERIF:C02:one-response-signature-per-batch");
        let signed = &log.signs[nsign_before];
        let d = depth_of(K);
        let frame = if version == Version::RfcDraft13 { 12 } else { 0 };
        let mut sent_ok = 0u64;
        let mut bytes_ok = 0u64;
        let mut j = 0;
        while j < K {
            let (ref bytes, to, ok) = w.tx[j];
            vassert!(to == addr(j), "VERIF:C09:reply-goes-to-the-address-its-request-came-from");
            vassert!(bytes.len() == RL + frame, "VERIF:C07:reply-length-is-the-closed-form");
            vassert!(bytes.len() <= 1024, "VERIF:C07:reply-not-longer-than-the-smallest-request");
            if ok {
                sent_ok += 1;
                bytes_ok += bytes.len() as u64;
            }
            let mut m = [0u8; RL];
            m.copy_from_slice(&bytes[frame..]);
            if frame == 12 {
                vassert!(le64(bytes, 0) == u64::from_le_bytes(*b"ROUGHTIM"), "VERIF:C02:ietf-reply-is-framed");
                vassert!(le32(bytes, 8) as usize == RL, "VERIF:C02:ietf-frame-length-is-payload-length");
            }
            let rm = ref_decode(&m, 6);
            vassert!(rm.is_some(), "VERIF:C02:reply-is-a-wellformed-message");
            let rm = rm.unwrap();
            vassert!(rm.n == 6 && rm.tags[0] == T_SIG && rm.tags[1] == T_NONC && rm.tags[2] == T_PATH
                     && rm.tags[3] == T_SREP && rm.tags[4] == T_CERT && rm.tags[5] == T_INDX, "VERIF:C02:reply-is-SIG-NONC-PATH-SREP-CERT-INDX");
            let at = |f: usize| rm.hdr + rm.start[f];
            let len = |f: usize| rm.end[f] - rm.start[f];
            // NONC echoes this request's nonce
            vassert!(len(1) == NL, "VERIF:C09:echoed-nonce-length");
            if NL > 0 {
                let k = vany_index(NL);
                vassert!(m[at(1) + k] == nonces[j][k], "VERIF:C09:reply-echoes-its-own-requests-nonce");
            }
            // INDX is this request's position
            vassert!(len(5) == 4 && le32(&m, at(5)) as usize == j, "VERIF:C09:index-is-the-requests-position-in-the-batch");
            // PATH: depth x protocol hash width
            vassert!(len(2) == d * W, "VERIF:C02:path-length-is-depth-times-protocol-hash-width");
            if light {
                j += 1;
                continue;
            }
            // SIG / SREP are what the online key signed for this batch
            vassert!(len(0) == 64 && dalek::eq64(&arr::<64>(&m[at(0)..at(0) + 64]), &signed.sig), "VERIF:C02:SIG-is-the-batch-signature");
            let sl = len(3);
            let mut sm = [0u8; 160];
            sm[..32].copy_from_slice(SIGN_CTX);
            sm[32..32 + sl].copy_from_slice(&m[at(3)..at(3) + sl]);
            vassert!(dalek::Msg::from_bytes(&sm[..32 + sl]).eq(&signed.msg), "VERIF:C02:SREP-in-reply-is-the-signed-SREP-under-response-context");
            vassert!(dalek::eq32(&signed.pk, &arr::<32>(&online_pk(&r.online_key))), "VERIF:C02:batch-signed-by-the-delegated-key");
            // CERT is this responder's certificate, whose DELE names the delegated key
            vassert!(len(4) == 152, "VERIF:C10:CERT-length");
            let ck = vany_index(152);
            vassert!(m[at(4) + ck] == r.cert_bytes[ck], "VERIF:C10:CERT-in-reply-is-the-servers-certificate");
            // SREP content: ROOT and MIDP
            let srep: &[u8] = &m[at(3)..at(3) + sl];
            let (root_at, midp_at) = match version {
                Version::Google => (24 + 12, 24 + 4),
                Version::RfcDraft13 => (40 + 24, 40 + 8),
            };
            let midp = le64(srep, midp_at);
            #[cfg(kani)]
            match version {
                Version::Google => { vassert!(midp == secs * 1_000_000 + (nanos as u64) / 1000, "VERIF:C11:midpoint-is-the-clock-at-signing"); }
                Version::RfcDraft13 => { vassert!(midp == secs, "VERIF:C11:midpoint-is-the-clock-at-signing"); }
            }
            #[cfg(not(kani))]
            {
                // replay against the real clock: the midpoint lies between two readings around the batch
                let (lo, hi) = (t_before.duration_since(UNIX_EPOCH).unwrap(), SystemTime::now().duration_since(UNIX_EPOCH).unwrap());
                let (a, b) = match version {
                    Version::Google => (lo.as_micros() as u64, hi.as_micros() as u64),
                    Version::RfcDraft13 => (lo.as_secs(), hi.as_secs()),
                };
                vassert!(a <= midp && midp <= b, "VERIF:C11:midpoint-is-the-clock-at-signing");
            }
            // independent protocol verifier: the path recomputes the signed root from this request's leaf
            let leaf: &[u8] = match version {
                Version::Google => &nonces[j],
                Version::RfcDraft13 => &leaves[j],
            };
            let sr = spec_root::<W>(leaf, j, &m[at(2)..at(2) + d * W], 3);
            vassert!(sr.is_some(), "VERIF:C02:independent-verifier-accepts-path-shape");
            if let Some(sr) = sr {
                vassert!(sl == root_at + W && same(&sr, &srep[root_at..root_at + W]), "VERIF:C02:inclusion-path-recomputes-signed-root-from-this-request");
            }
            j += 1;
        }
        // ---- statistics match the traffic
        let (resp, other) = match version {
            Version::Google => (stats.num_classic_responses_sent(), stats.num_rfc_responses_sent()),
            Version::RfcDraft13 => (stats.num_rfc_responses_sent(), stats.num_classic_responses_sent()),
        };
        vassert!(resp == sent_ok && other == 0, "VERIF:C17:responses-recorded-equal-datagrams-sent");
        vassert!(stats.total_bytes_sent() as u64 == bytes_ok, "VERIF:C17:bytes-recorded-equal-bytes-sent");
        vassert!(stats.total_failed_send_attempts() == K as u64 - sent_ok, "VERIF:C17:failed-sends-recorded");
        vcover!(true, "COVER:batch-end");
        core::mem::forget(stats);
        core::mem::forget(r);
    }

    macro_rules! c09_batch {
        ($name:ident, $k:expr, $nl:expr, $ll:expr, $w:expr, $rl:expr, $ver:expr, $same:expr, $mask:expr, $unwind:expr) => {
            #[cfg_attr(kani, kani::proof)]
            #[cfg_attr(kani, kani::unwind($unwind))]
            #[cfg_attr(kani, kani::stub(<crate::error::Error as std::convert::From<std::io::Error>>::from, crate::verif_support::stub_error_from_io))]
            #[cfg_attr(kani, kani::stub(std::time::SystemTime::now, crate::responder::verif_responder::stub_now))]
            #[cfg_attr(kani, kani::stub(std::thread::current::current, crate::responder::verif_responder::stub_thread_current))]
            #[cfg_attr(kani, kani::stub(std::hash::RandomState::new, crate::stats::verif_aggregated::stub_random_state_new))]
            #[cfg_attr(not(kani), test)]
            fn $name() {
                batch_body::<$k, $nl, $ll, $w, $rl>($ver, $same, $mask);
            }
        };
    }

    macro_rules! c09_light {
        ($name:ident, $k:expr, $nl:expr, $ll:expr, $w:expr, $rl:expr, $ver:expr, $same:expr, $mask:expr, $unwind:expr) => {
            #[cfg_attr(kani, kani::proof)]
            #[cfg_attr(kani, kani::unwind($unwind))]
            #[cfg_attr(kani, kani::stub(<crate::error::Error as std::convert::From<std::io::Error>>::from, crate::verif_support::stub_error_from_io))]
            #[cfg_attr(kani, kani::stub(std::time::SystemTime::now, crate::responder::verif_responder::stub_now))]
            #[cfg_attr(kani, kani::stub(std::thread::current::current, crate::responder::verif_responder::stub_thread_current))]
            #[cfg_attr(kani, kani::stub(std::hash::RandomState::new, crate::stats::verif_aggregated::stub_random_state_new))]
            #[cfg_attr(not(kani), test)]
            fn $name() {
                batch_body_opt::<$k, $nl, $ll, $w, $rl>($ver, $same, $mask, true);
            }
        };
    }

    // reply length closed form: 4 + 5*4 + 6*4 + 64 (SIG) + NL + d*W + |SREP| + 152 (CERT) + 4 (INDX)
    //   classic |SREP| = 100, IETF |SREP| = 96
    //@ family c09_batch props=C09,C02,C08,C11,C17,C07,C10 mode=strict mod=responder::verif_responder needs=src/message.rs,src/merkle.rs,src/key/online.rs,src/key/mod.rs,src/grease.rs,src/stats/aggregated.rs,src/stats/mod.rs,src/sign.rs must_cover=COVER:batch-end timeout=900
    //@ harness c09_batch_classic_k1 tier=quick shape="classic, batch of 1, nonce 64 symbolic bytes, send ok"
    c09_batch!(c09_batch_classic_k1, 1, 64, 4, 64, 432, Version::Google, false, 0, 12);
    //@ harness c09_batch_ietf_k1 tier=quick shape="IETF, batch of 1, nonce 32 B, request leaf 8 B, send ok"
    c09_batch!(c09_batch_ietf_k1, 1, 32, 8, 32, 396, Version::RfcDraft13, false, 0, 12);
    //@ harness c09_batch_classic_k2 tier=thorough shape="classic, batch of 2, nonces 64 B, second send fails" required=no
    c09_batch!(c09_batch_classic_k2, 2, 64, 4, 64, 496, Version::Google, false, 2, 12);
    //@ harness c09_batch_ietf_k2 tier=thorough shape="IETF, batch of 2, nonces 32 B, leaves 8 B" required=no
    c09_batch!(c09_batch_ietf_k2, 2, 32, 8, 32, 428, Version::RfcDraft13, false, 0, 12);
    //@ harness c09_batch_classic_k2_same_nonce tier=thorough shape="classic, batch of 2 with identical nonces from different addresses" required=no
    c09_batch!(c09_batch_classic_k2_same_nonce, 2, 64, 4, 64, 496, Version::Google, true, 0, 12);
    //@ harness c09_batch_classic_k3 tier=thorough shape="classic, batch of 3 (padded tree)" required=no
    c09_batch!(c09_batch_classic_k3, 3, 64, 4, 64, 560, Version::Google, false, 0, 13);

    //@ family c09_light props=C09 mode=strict mod=responder::verif_responder needs=src/message.rs,src/merkle.rs,src/key/online.rs,src/key/mod.rs,src/grease.rs,src/stats/aggregated.rs,src/stats/mod.rs,src/sign.rs must_cover=COVER:batch-end timeout=900
    //@ harness c09_light_classic_k2_same_nonce tier=thorough shape="classic, batch of 2 with identical nonces from two addresses: count, destination, nonce, index only" required=no
    c09_light!(c09_light_classic_k2_same_nonce, 2, 64, 4, 64, 496, Version::Google, true, 0, 12);
    //@ harness c09_light_ietf_k2 tier=thorough shape="IETF, batch of 2, second send fails: count, destination, nonce, index only" required=no
    c09_light!(c09_light_ietf_k2, 2, 32, 8, 32, 428, Version::RfcDraft13, false, 2, 12);

    // ------------------------------------------------------------------ C07: no amplification
    /// A full-size (1024-byte) request whose NONC value is NL bytes long goes through the real
    /// size gate and parser; if it is accepted, the reply it would draw (closed form, single-request
    /// batch) must not be longer than the request.
    pub fn amplify_body<const NL: usize>(version: Version) {
        dalek::model_reset();
        ring::rand::model_reset(None);
        ring::digest::model_reset(false);
        mio::model_reset();
        let mut buf = [0u8; 1024];
        let head: [u8; 8] = vany_bytes::<8>();
        let nonce_at = match version {
            Version::Google => {
                // [2 | off=NL | NONC PAD | nonce (NL) | pad]
                buf[0..4].copy_from_slice(&2u32.to_le_bytes());
                buf[4..8].copy_from_slice(&(NL as u32).to_le_bytes());
                buf[8..12].copy_from_slice(&T_NONC.to_le_bytes());
                buf[12..16].copy_from_slice(&T_PAD.to_le_bytes());
                16
            }
            Version::RfcDraft13 => {
                // ROUGHTIM | len | [3 | off=4, 4+NL | VER NONC ZZZZ | ver (4) | nonce (NL) | zzzz]
                buf[0..8].copy_from_slice(b"ROUGHTIM");
                buf[8..12].copy_from_slice(&1012u32.to_le_bytes());
                buf[12..16].copy_from_slice(&3u32.to_le_bytes());
                buf[16..20].copy_from_slice(&4u32.to_le_bytes());
                buf[20..24].copy_from_slice(&((4 + NL) as u32).to_le_bytes());
                buf[24..28].copy_from_slice(&T_VER.to_le_bytes());
                buf[28..32].copy_from_slice(&T_NONC.to_le_bytes());
                buf[32..36].copy_from_slice(&T_ZZZZ.to_le_bytes());
                buf[36..40].copy_from_slice(&0x8000_000cu32.to_le_bytes());
                40
            }
        };
        buf[nonce_at..nonce_at + 8].copy_from_slice(&head);
        let srv = [0u8; 32];
        let parsed = crate::request::nonce_from_request(&buf, 1024, &srv);
        vcover!(parsed.is_ok(), "COVER:request-accepted");
        vcover!(parsed.is_err(), "COVER:request-dropped");
        if let Ok((nonce, ver)) = parsed {
            vassert!(ver == version, "VERIF:C09:request-routed-to-its-own-protocol");
            // reply length by the closed form that c09_batch validates on the real replies
            // (single-request batch: depth 0): decided before the expensive responder run
            let reply_len = match version {
                Version::Google => 48 + 64 + nonce.len() + 100 + 152 + 4,
                Version::RfcDraft13 => 12 + 48 + 64 + nonce.len() + 96 + 152 + 4,
            };
            let fits = reply_len <= 1024;
            vassert!(fits, "VERIF:C07:accepted-nonce-length-cannot-make-the-reply-longer-than-the-request");
            // (the responder itself is not run here: after the parser's merge the nonce length is a
            // symbolic term and a batch with it does not finish; that the closed form above is the real
            // reply length is asserted on real replies by c09_batch)
            core::mem::forget(nonce);
        }
    }

    macro_rules! c07_amplify {
        ($name:ident, $nl:expr, $ver:expr, $unwind:expr) => {
            #[cfg_attr(kani, kani::proof)]
            #[cfg_attr(kani, kani::unwind($unwind))]
            #[cfg_attr(kani, kani::stub(<crate::error::Error as std::convert::From<std::io::Error>>::from, crate::verif_support::stub_error_from_io))]
            #[cfg_attr(kani, kani::stub(std::time::SystemTime::now, crate::responder::verif_responder::stub_now))]
            #[cfg_attr(kani, kani::stub(std::thread::current::current, crate::responder::verif_responder::stub_thread_current))]
            #[cfg_attr(kani, kani::stub(std::hash::RandomState::new, crate::stats::verif_aggregated::stub_random_state_new))]
            #[cfg_attr(not(kani), test)]
            fn $name() {
                amplify_body::<$nl>($ver);
            }
        };
    }
    //@ family c07_amplify props=C07,C08 mode=strict mod=responder::verif_responder needs=src/message.rs,src/merkle.rs,src/key/online.rs,src/key/mod.rs,src/grease.rs,src/stats/aggregated.rs,src/stats/mod.rs,src/sign.rs,src/request.rs timeout=900
    //@ harness c07_amplify_classic_nonce1000 tier=quick shape="classic 1024-byte request with a 1000-byte NONC (first 8 bytes symbolic)" must_cover=COVER:request-dropped
    c07_amplify!(c07_amplify_classic_nonce1000, 1000, Version::Google, 12);
    //@ harness c07_amplify_ietf_nonce900 tier=quick shape="IETF 1024-byte framed request with a 900-byte NONC" must_cover=COVER:request-dropped
    c07_amplify!(c07_amplify_ietf_nonce900, 900, Version::RfcDraft13, 12);
    //@ harness c07_amplify_classic_nonce64 tier=quick shape="classic 1024-byte request with the regular 64-byte NONC" must_cover=COVER:request-accepted
    c07_amplify!(c07_amplify_classic_nonce64, 64, Version::Google, 12);
    //@ harness c07_amplify_ietf_nonce32 tier=quick shape="IETF 1024-byte framed request with the regular 32-byte NONC" must_cover=COVER:request-accepted
    c07_amplify!(c07_amplify_ietf_nonce32, 32, Version::RfcDraft13, 12);
    //@ harness c07_amplify_classic_nonce0 tier=quick shape="classic 1024-byte request with an empty NONC" must_cover=COVER:request-dropped
    c07_amplify!(c07_amplify_classic_nonce0, 0, Version::Google, 12);

    //@ family c07_closed_form props=C07 mode=strict mod=responder::verif_responder needs=src/message.rs,src/merkle.rs,src/key/online.rs,src/key/mod.rs,src/grease.rs,src/stats/aggregated.rs,src/stats/mod.rs,src/sign.rs,src/request.rs must_cover=COVER:arith
    //@ harness c07_reply_size_bound tier=quick shape="every path depth 0..=6 (batch_size <= 64), every request length 1024..=1500, protocol nonce lengths"
    /// reply length closed form (validated on the real code by c09_batch: 'reply-length-is-the-closed-form'):
    ///   classic 4+20+24 + 64 + nonce + 64*depth + 100 + 152 + 4;  IETF 12 + 4+20+24 + 64 + nonce + 32*depth + 96 + 152 + 4
    #[cfg_attr(kani, kani::proof)]
    #[cfg_attr(not(kani), test)]
    fn c07_reply_size_bound() {
        let depth = vany_index(7);
        let req = vany_usize();
        vassume(req >= 1024 && req <= 1500);
        let classic = 48 + 64 + 64 + 64 * depth + 100 + 152 + 4;
        let ietf = 12 + 48 + 64 + 32 + 32 * depth + 96 + 152 + 4;
        vcover!(depth == 6, "COVER:arith");
        vassert!(classic <= req, "VERIF:C07:classic-reply-fits-in-request-for-every-depth");
        vassert!(ietf <= req, "VERIF:C07:ietf-reply-fits-in-request-for-every-depth");
    }

    // ------------------------------------------------------------------ C09: pairing, with the expensive parts stubbed
    /// make_srep stub for the pairing harness: a fixed two-field result (the signature and SREP
    /// contents are the subject of c11_srep / c09_batch, not of the pairing)
    pub fn stub_make_srep(_k: &mut OnlineKey, _v: Version, _now: SystemTime, _root: &[u8]) -> RtMessage {
        let mut m = RtMessage::with_capacity(2);
        m.add_field(Tag::SIG, &[0u8; 4]).unwrap();
        m.add_field(Tag::SREP, &[0u8; 4]).unwrap();
        m
    }

    /// K requests with 4-byte nonces (send_responses itself does not restrict nonce lengths) in one
    /// batch: exactly K datagrams, the i-th to the i-th source address, echoing the i-th nonce with
    /// INDX = i -- also when nonces are identical.  Everything else about the reply is left to c09_batch.
    pub fn pairing_body<const K: usize>(version: Version, same_nonce: bool, fail_mask: u32) {
        dalek::model_reset();
        ring::rand::model_reset(None);
        ring::digest::model_reset(false);
        mio::model_reset();
        mio::world().tx_fail_mask = fail_mask;
        let mut nonces: [[u8; 4]; K] = [[0u8; 4]; K].map(|_| vany_bytes::<4>());
        if same_nonce {
            nonces[1] = nonces[0];
        }
        let seed = [9u8; 32];
        let mut r = mk_responder(version, &seed, 0, [0u8; 16]);
        r.cert_bytes = vec![0u8; 4];
        let mut stats: Box<dyn ServerStats> = Box::new(AggregatedStats::new());
        let mut sock = UdpSocket::model();
        r.reset();
        let mut i = 0;
        while i < K {
            match version {
                Version::Google => r.add_classic_request(nonces[i].to_vec(), addr(i)),
                Version::RfcDraft13 => r.add_ietf_request(&nonces[i], nonces[i].to_vec(), addr(i)),
            }
            i += 1;
        }
        r.send_responses(&mut sock, &mut stats);
        let w = mio::world();
        vassert!(w.tx.len() == K, "VERIF:C09+C02:exactly-one-datagram-per-accepted-request");
        let frame = if version == Version::RfcDraft13 { 12 } else { 0 };
        let mut j = 0;
        while j < K {
            if j < w.tx.len() {
                let (ref bytes, to, _ok) = w.tx[j];
                vassert!(to == addr(j), "VERIF:C09+C02:reply-goes-to-the-address-its-request-came-from");
                // reply = {SIG 4, NONC 4, PATH d*W, SREP 4, CERT 4, INDX 4}: header 48 bytes
                let nonc_at = frame + 48 + 4;
                vassert!(bytes.len() >= nonc_at + 4, "VERIF:C09+C02:reply-carries-a-nonce");
                vassert!(le32(bytes, nonc_at) == u32::from_le_bytes(nonces[j]), "VERIF:C09+C02:reply-echoes-its-own-requests-nonce");
                let n = bytes.len();
                vassert!(le32(bytes, n - 4) as usize == j, "VERIF:C09+C02:index-is-the-requests-position-in-the-batch");
            }
            j += 1;
        }
        // statistics: a send that failed is a failed send, a send that succeeded a response
        let mut ok_n = 0u64;
        let mut ok_bytes = 0u64;
        let mut q = 0;
        while q < K {
            if q < w.tx.len() && w.tx[q].2 {
                ok_n += 1;
                ok_bytes += w.tx[q].0.len() as u64;
            }
            q += 1;
        }
        vassert!(stats.total_responses_sent() == ok_n, "VERIF:C17+C09:responses-recorded-equal-datagrams-sent");
        vassert!(stats.total_bytes_sent() as u64 == ok_bytes, "VERIF:C17+C09:bytes-recorded-equal-bytes-sent");
        vassert!(stats.total_failed_send_attempts() == K as u64 - ok_n, "VERIF:C17+C09:failed-sends-recorded");
        vcover!(true, "COVER:batch-end");
        core::mem::forget(stats);
        core::mem::forget(r);
    }

    macro_rules! c09_pairing {
        ($name:ident, $k:expr, $ver:expr, $same:expr, $mask:expr, $unwind:expr) => {
            #[cfg_attr(kani, kani::proof)]
            #[cfg_attr(kani, kani::unwind($unwind))]
            #[cfg_attr(kani, kani::stub(<crate::error::Error as std::convert::From<std::io::Error>>::from, crate::verif_support::stub_error_from_io))]
            #[cfg_attr(kani, kani::stub(std::time::SystemTime::now, crate::responder::verif_responder::stub_now))]
            #[cfg_attr(kani, kani::stub(std::thread::current::current, crate::responder::verif_responder::stub_thread_current))]
            #[cfg_attr(kani, kani::stub(std::hash::RandomState::new, crate::stats::verif_aggregated::stub_random_state_new))]
            #[cfg_attr(kani, kani::stub(crate::key::OnlineKey::make_srep, crate::responder::verif_responder::stub_make_srep))]
            #[cfg_attr(not(kani), test)]
            fn $name() {
                pairing_body::<$k>($ver, $same, $mask);
            }
        };
    }
    //@ family c09_pairing props=C09,C17,C02 mode=strict mod=responder::verif_responder needs=src/message.rs,src/merkle.rs,src/key/online.rs,src/key/mod.rs,src/grease.rs,src/stats/aggregated.rs,src/stats/mod.rs,src/sign.rs must_cover=COVER:batch-end timeout=900
    //@ harness c09_pairing_classic_k2_same_nonce tier=quick shape="classic, 2 requests with identical 4-byte nonces from two addresses; make_srep stubbed" required=no
    c09_pairing!(c09_pairing_classic_k2_same_nonce, 2, Version::Google, true, 0, 12);
    //@ harness c09_pairing_ietf_k2_first_send_fails tier=quick shape="IETF, 2 requests, distinct symbolic nonces, the FIRST send fails; make_srep stubbed" required=no
    c09_pairing!(c09_pairing_ietf_k2_first_send_fails, 2, Version::RfcDraft13, false, 1, 12);
    //@ harness c09_pairing_classic_k3_middle_send_fails tier=thorough shape="classic, 3 requests, the second send fails; make_srep stubbed" required=no
    c09_pairing!(c09_pairing_classic_k3_middle_send_fails, 3, Version::Google, false, 2, 13);

    // ------------------------------------------------------------------ C02: the IETF leaf is the whole request packet
    /// add_ietf_request must hash exactly the bytes it is given (the request packet as received,
    /// 1024..=1500 bytes); add_classic_request exactly the nonce.  The hash model records the
    /// length and the first 160 bytes of a long input.
    pub fn leaf_body<const LL: usize>(version: Version) {
        dalek::model_reset();
        ring::rand::model_reset(None);
        ring::digest::model_reset(false);
        let head: [u8; 159] = vany_bytes::<159>();
        let mut data = [0u8; LL];
        data[..159].copy_from_slice(&head);
        let seed = [3u8; 32];
        let mut r = mk_responder(version, &seed, 0, [0u8; 16]);
        r.reset();
        let before = ring::digest::model_log().n;
        match version {
            Version::RfcDraft13 => r.add_ietf_request(&data, vec![0u8; 32], addr(0)),
            Version::Google => r.add_classic_request(data[..64].to_vec(), addr(0)),
        }
        let h = ring::digest::model_log();
        vassert!(h.n == before + 1, "VERIF:C02:one-leaf-hash-per-queued-request");
        let q = &h.q[before];
        let want_len = 1 + if version == Version::RfcDraft13 { LL } else { 64 };
        vassert!(q.input.len == want_len, "VERIF:C02:leaf-hash-covers-the-whole-request-packet");
        let got = q.input.bytes();
        vassert!(got[0] == 0x00, "VERIF:C02:leaf-hash-uses-the-leaf-tweak");
        let k = vany_index(if want_len - 1 < 159 { want_len - 1 } else { 159 });
        vassert!(got[1 + k] == data[k], "VERIF:C02:leaf-hash-input-is-the-request-bytes");
        vcover!(true, "COVER:leaf-end");
        core::mem::forget(r);
    }
    macro_rules! c02_leaf {
        ($name:ident, $ll:expr, $ver:expr) => {
            #[cfg_attr(kani, kani::proof)]
            #[cfg_attr(kani, kani::unwind(12))]
            #[cfg_attr(kani, kani::stub(<crate::error::Error as std::convert::From<std::io::Error>>::from, crate::verif_support::stub_error_from_io))]
            #[cfg_attr(not(kani), test)]
            fn $name() {
                leaf_body::<$ll>($ver);
            }
        };
    }
    //@ family c02_leaf props=C02,C03 mode=strict mod=responder::verif_responder needs=src/message.rs,src/merkle.rs,src/key/online.rs,src/key/mod.rs,src/grease.rs,src/stats/aggregated.rs,src/stats/mod.rs,src/sign.rs must_cover=COVER:leaf-end
    //@ harness c02_leaf_ietf_1024 tier=quick shape="IETF request packet of 1024 bytes (first 159 symbolic)"
    c02_leaf!(c02_leaf_ietf_1024, 1024, Version::RfcDraft13);
    //@ harness c02_leaf_ietf_1500 tier=quick shape="IETF request packet of 1500 bytes (largest accepted)"
    c02_leaf!(c02_leaf_ietf_1500, 1500, Version::RfcDraft13);
    //@ harness c02_leaf_ietf_1028 tier=quick shape="IETF request packet of 1028 bytes"
    c02_leaf!(c02_leaf_ietf_1028, 1028, Version::RfcDraft13);
    //@ harness c02_leaf_classic tier=quick shape="classic: leaf is the 64-byte nonce"
    c02_leaf!(c02_leaf_classic, 160, Version::Google);
}
