
// ===========================================================================
// woven by /verif: proof harnesses for src/kms/envelope.rs (C14)
// ===========================================================================
#[cfg(any(kani, feature = "verif_replay"))]
#[allow(dead_code, unused_imports)]
pub(crate) mod verif_envelope {
    use super::*;
    use crate::kms::{EncryptedDEK, PlaintextDEK};
    use crate::verif_support::*;
    use crate::{vassert, vcover};
    use std::cell::RefCell;

    pub fn stub_format(_args: core::fmt::Arguments<'_>) -> String {
        String::new()
    }
    pub fn stub_kmserror_from_io(_e: std::io::Error) -> KmsError {
        KmsError::OperationFailed(String::new())
    }

    /// An ideal key-management provider: wrapping returns WL arbitrary bytes and remembers the
    /// pair; unwrapping returns the key only for exactly those bytes.  For any other input it
    /// fails, or (fault `WrongKey`) returns some *other* key.  Faults are switched per harness.
    #[derive(Clone, Copy, PartialEq)]
    pub enum Fault {
        None,
        EncryptErr,
        DecryptErr,
        ShortKey,
        LongKey,
        WrongKey,
    }

    pub struct IdealKms<const WL: usize> {
        pub wrapped: [u8; WL],
        pub other_key: [u8; 32],
        pub seen: RefCell<Option<[u8; 32]>>,
        pub fault: Fault,
    }

    impl<const WL: usize> KmsProvider for IdealKms<WL> {
        fn encrypt_dek(&self, plaintext_dek: &PlaintextDEK) -> Result<EncryptedDEK, KmsError> {
            if self.fault == Fault::EncryptErr {
                return Err(KmsError::OperationFailed(String::new()));
            }
            let mut k = [0u8; 32];
            if plaintext_dek.len() != 32 {
                return Err(KmsError::InvalidKey(String::new()));
            }
            k.copy_from_slice(plaintext_dek);
            *self.seen.borrow_mut() = Some(k);
            Ok(self.wrapped.to_vec())
        }

        fn decrypt_dek(&self, encrypted_dek: &EncryptedDEK) -> Result<PlaintextDEK, KmsError> {
            match self.fault {
                Fault::DecryptErr => return Err(KmsError::OperationFailed(String::new())),
                Fault::ShortKey => return Ok(vec![0u8; 31]),
                Fault::LongKey => return Ok(vec![0u8; 33]),
                Fault::WrongKey => return Ok(self.other_key.to_vec()),
                _ => {}
            }
            let seen = *self.seen.borrow();
            match seen {
                Some(k) if encrypted_dek.len() == WL && same_bytes(encrypted_dek, &self.wrapped) => Ok(k.to_vec()),
                _ => Err(KmsError::OperationFailed(String::new())),
            }
        }
    }

    /// byte-wise comparison in an ordinary loop (bounded by the harness' own unwind value; slice ==
    /// is CBMC's memcmp, whose separate bound of 70 is too small for long wrapped keys)
    fn same_bytes(a: &[u8], b: &[u8]) -> bool {
        if a.len() != b.len() {
            return false;
        }
        let mut i = 0;
        let mut same = true;
        while i < a.len() {
            if a[i] != b[i] {
                same = false;
            }
            i += 1;
        }
        same
    }

    pub fn new_kms<const WL: usize>(fault: Fault) -> IdealKms<WL> {
        IdealKms { wrapped: vany_bytes::<WL>(), other_key: vany_bytes::<32>(), seen: RefCell::new(None), fault }
    }

    /// what: 0 round trip + layout, 1 one byte at a solver-chosen position >= 4 modified,
    ///       2 truncated to `arg` bytes, 3 extended by `arg` arbitrary bytes,
    ///       4 provider fault `fault`, 5 length-field byte `arg` (0..4) modified
    pub fn envelope_body<const PL: usize, const WL: usize, const BL: usize>(what: u8, arg: usize, fault: Fault) {
        ring::aead::model_reset();
        ring::rand::model_reset(None);
        let seed: [u8; PL] = vany_bytes::<PL>();
        let kms = new_kms::<WL>(if fault == Fault::EncryptErr { fault } else { Fault::None });
        let enc = EnvelopeEncryption::encrypt_seed(&kms, &seed);
        if fault == Fault::EncryptErr {
            vassert!(enc.is_err(), "VERIF:C14:provider-error-on-wrap-yields-error");
            vcover!(true, "COVER:envelope-end");
            core::mem::forget(enc);
            return;
        }
        vassert!(enc.is_ok(), "VERIF:C14:encryption-succeeds-with-working-provider");
        let blob_v = enc.unwrap();
        vassert!(blob_v.len() == BL, "VERIF:C14:blob-length-is-4+wrapped+12+seed+16");
        let mut blob = [0u8; BL];
        blob.copy_from_slice(&blob_v);
        vassert!(u16::from_le_bytes([blob[0], blob[1]]) as usize == WL, "VERIF:C14:blob-states-wrapped-key-length");
        vassert!(u16::from_le_bytes([blob[2], blob[3]]) == 12, "VERIF:C14:blob-states-nonce-length");
        let kms2 = IdealKms::<WL> { wrapped: kms.wrapped, other_key: kms.other_key, seen: RefCell::new(*kms.seen.borrow()), fault };
        // a provider that returns a *different* key: some byte differs
        if fault == Fault::WrongKey {
            let real = kms2.seen.borrow().unwrap();
            vassume(real != kms2.other_key);
        }
        if what == 0 {
            let dec = EnvelopeEncryption::decrypt_seed(&kms2, &blob);
            vassert!(dec.is_ok(), "VERIF:C14:roundtrip-decrypts");
            if let Ok(p) = &dec {
                vassert!(p.len() == PL, "VERIF:C14:roundtrip-seed-length");
                let k = vany_index(PL);
                vassert!(p[k] == seed[k], "VERIF:C14:roundtrip-returns-the-seed");
            }
            core::mem::forget(dec);
        } else if what == 1 {
            // arg = 0: any position >= 4; otherwise a region: 1 wrapped key, 2 nonce, 3 ciphertext+tag
            let k = vany_index(BL);
            vassume(k >= 4);
            if arg == 1 {
                vassume(k < 4 + WL);
            } else if arg == 2 {
                vassume(k >= 4 + WL && k < 4 + WL + 12);
            } else if arg == 3 {
                vassume(k >= 4 + WL + 12);
            }
            let delta = vany_u8();
            vassume(delta != 0);
            blob[k] ^= delta;
            let dec = EnvelopeEncryption::decrypt_seed(&kms2, &blob);
            vassert!(dec.is_err(), "VERIF:C14:modified-blob-is-rejected");
            core::mem::forget(dec);
        } else if what == 2 {
            let dec = EnvelopeEncryption::decrypt_seed(&kms2, &blob[..arg]);
            vassert!(dec.is_err(), "VERIF:C14:truncated-blob-is-rejected");
            core::mem::forget(dec);
        } else if what == 3 {
            let extra: [u8; 4] = vany_bytes::<4>();
            let mut longer = blob.to_vec();
            longer.extend_from_slice(&extra[..arg]);
            let dec = EnvelopeEncryption::decrypt_seed(&kms2, &longer);
            vassert!(dec.is_err(), "VERIF:C14:extended-blob-is-rejected");
            core::mem::forget(dec);
            core::mem::forget(longer);
        } else if what == 4 {
            let dec = EnvelopeEncryption::decrypt_seed(&kms2, &blob);
            vassert!(dec.is_err(), "VERIF:C14:provider-fault-on-unwrap-yields-error");
            core::mem::forget(dec);
        } else if what == 5 {
            let delta = vany_u8();
            vassume(delta != 0);
            blob[arg] ^= delta;
            let dec = EnvelopeEncryption::decrypt_seed(&kms2, &blob);
            vassert!(dec.is_err(), "VERIF:C14:modified-length-field-is-rejected");
            core::mem::forget(dec);
        } else {
            // wrapped-key length field set to (blob length - arg): the boundary of the length check
            let v = (BL - arg) as u16;
            blob[0..2].copy_from_slice(&v.to_le_bytes());
            let dec = EnvelopeEncryption::decrypt_seed(&kms2, &blob);
            vassert!(dec.is_err(), "VERIF:C14:length-field-at-the-blob-boundary-is-rejected");
            core::mem::forget(dec);
        }
        vcover!(true, "COVER:envelope-end");
        core::mem::forget(blob_v);
    }

    macro_rules! c14 {
        ($name:ident, $pl:expr, $wl:expr, $bl:expr, $what:expr, $arg:expr, $fault:expr, $unwind:expr) => {
            #[cfg_attr(kani, kani::proof)]
            #[cfg_attr(kani, kani::unwind($unwind))]
            #[cfg_attr(kani, kani::stub(alloc::fmt::format, crate::kms::envelope::verif_envelope::stub_format))]
            #[cfg_attr(kani, kani::stub(<crate::kms::KmsError as std::convert::From<std::io::Error>>::from, crate::kms::envelope::verif_envelope::stub_kmserror_from_io))]
            #[cfg_attr(not(kani), test)]
            fn $name() {
                envelope_body::<$pl, $wl, $bl>($what, $arg, $fault);
            }
        };
    }

    //@ family c14_envelope props=C14 mode=strict mod=kms::envelope::verif_envelope must_cover=COVER:envelope-end
    //@ harness c14_roundtrip_p32_w32 tier=quick shape="seed 32 B, wrapped key 32 B; all bytes symbolic"
    c14!(c14_roundtrip_p32_w32, 32, 32, 96, 0, 0, Fault::None, 40);
    //@ harness c14_roundtrip_p64_w48 tier=quick shape="seed 64 B, wrapped key 48 B"
    c14!(c14_roundtrip_p64_w48, 64, 48, 144, 0, 0, Fault::None, 60);
    //@ harness c14_roundtrip_p32_w600 tier=thorough shape="seed 32 B, wrapped key 600 B (providers may return up to 1024)" timeout=900 required=no
    c14!(c14_roundtrip_p32_w600, 32, 600, 664, 0, 0, Fault::None, 610);
    //@ harness c14_roundtrip_p32_w128 tier=thorough shape="seed 32 B, wrapped key 128 B" timeout=600 required=no
    c14!(c14_roundtrip_p32_w128, 32, 128, 192, 0, 0, Fault::None, 136);
    //@ harness c14_roundtrip_p32_w520 tier=thorough shape="seed 32 B, wrapped key 520 B (just above 512)" timeout=900 required=no
    c14!(c14_roundtrip_p32_w520, 32, 520, 584, 0, 0, Fault::None, 528);
    //@ harness c14_roundtrip_p32_w1024 tier=thorough shape="seed 32 B, wrapped key 1024 B" required=no
    c14!(c14_roundtrip_p32_w1024, 32, 1024, 1088, 0, 0, Fault::None, 1030);
    //@ harness c14_tamper_p32_w32 tier=thorough shape="seed 32 B, wrapped 32 B: any single byte at any position >= 4 xor any nonzero value"
    c14!(c14_tamper_p32_w32, 32, 32, 96, 1, 0, Fault::None, 40);
    //@ harness c14_tamper_wrapped_key tier=quick shape="any single byte of the wrapped key xor any nonzero value" timeout=600
    c14!(c14_tamper_wrapped_key, 32, 32, 96, 1, 1, Fault::None, 40);
    //@ harness c14_tamper_nonce tier=quick shape="any single byte of the AEAD nonce xor any nonzero value" timeout=600
    c14!(c14_tamper_nonce, 32, 32, 96, 1, 2, Fault::None, 40);
    //@ harness c14_tamper_ciphertext tier=quick shape="any single byte of ciphertext or tag xor any nonzero value" timeout=600
    c14!(c14_tamper_ciphertext, 32, 32, 96, 1, 3, Fault::None, 40);
    //@ harness c14_tamper_p64_w48 tier=thorough shape="seed 64 B, wrapped 48 B: any single byte >= 4 modified" required=no
    c14!(c14_tamper_p64_w48, 64, 48, 144, 1, 0, Fault::None, 60);
    //@ harness c14_lenfield0_p32_w32 tier=thorough shape="wrapped-length field low byte modified (any value)" required=no
    c14!(c14_lenfield0_p32_w32, 32, 32, 96, 5, 0, Fault::None, 260);
    //@ harness c14_lenfield_eq_len tier=quick shape="wrapped-length field = blob length (96)"
    c14!(c14_lenfield_eq_len, 32, 32, 96, 6, 0, Fault::None, 110);
    //@ harness c14_lenfield_len_minus_1 tier=quick shape="wrapped-length field = blob length - 1"
    c14!(c14_lenfield_len_minus_1, 32, 32, 96, 6, 1, Fault::None, 110);
    //@ harness c14_lenfield_len_minus_3 tier=quick shape="wrapped-length field = blob length - 3"
    c14!(c14_lenfield_len_minus_3, 32, 32, 96, 6, 3, Fault::None, 110);
    //@ harness c14_lenfield_len_minus_4 tier=quick shape="wrapped-length field = blob length - 4 (wrapped key would fill the rest)"
    c14!(c14_lenfield_len_minus_4, 32, 32, 96, 6, 4, Fault::None, 110);
    //@ harness c14_lenfield2_p32_w32 tier=quick shape="nonce-length field low byte modified (any value)"
    c14!(c14_lenfield2_p32_w32, 32, 32, 96, 5, 2, Fault::None, 40);
    //@ harness c14_lenfield3_p32_w32 tier=quick shape="nonce-length field high byte modified (any value)"
    c14!(c14_lenfield3_p32_w32, 32, 32, 96, 5, 3, Fault::None, 40);
    //@ harness c14_trunc_0 tier=quick shape="truncated to 0 bytes"
    c14!(c14_trunc_0, 32, 32, 96, 2, 0, Fault::None, 40);
    //@ harness c14_trunc_95 tier=quick shape="truncated by one byte (95 of 96)"
    c14!(c14_trunc_95, 32, 32, 96, 2, 95, Fault::None, 40);
    //@ harness c14_trunc_p64_to_96 tier=quick shape="64-byte-seed blob (128 B) truncated to the minimum size 96"
    c14!(c14_trunc_p64_to_96, 64, 32, 128, 2, 96, Fault::None, 60);
    //@ harness c14_trunc_p64_to_127 tier=thorough shape="64-byte-seed blob truncated by one byte"
    c14!(c14_trunc_p64_to_127, 64, 32, 128, 2, 127, Fault::None, 60);
    //@ harness c14_extend_1 tier=quick shape="extended by 1 arbitrary byte"
    c14!(c14_extend_1, 32, 32, 96, 3, 1, Fault::None, 40);
    //@ harness c14_extend_4 tier=thorough shape="extended by 4 arbitrary bytes"
    c14!(c14_extend_4, 32, 32, 96, 3, 4, Fault::None, 40);
    //@ harness c14_fault_encrypt_err tier=quick shape="provider fails on wrap"
    c14!(c14_fault_encrypt_err, 32, 32, 96, 4, 0, Fault::EncryptErr, 40);
    //@ harness c14_fault_decrypt_err tier=quick shape="provider fails on unwrap"
    c14!(c14_fault_decrypt_err, 32, 32, 96, 4, 0, Fault::DecryptErr, 40);
    //@ harness c14_fault_short_key tier=quick shape="provider returns a 31-byte key"
    c14!(c14_fault_short_key, 32, 32, 96, 4, 0, Fault::ShortKey, 40);
    //@ harness c14_fault_long_key tier=quick shape="provider returns a 33-byte key"
    c14!(c14_fault_long_key, 32, 32, 96, 4, 0, Fault::LongKey, 40);
    //@ harness c14_fault_wrong_key tier=quick shape="provider returns a different 32-byte key (any)"
    c14!(c14_fault_wrong_key, 32, 32, 96, 4, 0, Fault::WrongKey, 40);
}
