
// ===========================================================================
// woven by /verif (verification support; not part of int08h/roughenough)
// ===========================================================================
#[cfg(any(kani, feature = "verif_replay"))]
#[allow(dead_code)]
pub mod verif_support {
    //! One property body, two execution modes:
    //!  * under Kani every `vany_*` is `kani::any()` (symbolic),
    //!  * natively (`--cfg verif_replay`, `cargo test`) the values are popped from the
    //!    hex string in `VERIF_INPUT` -- the solver's counterexample -- so the same
    //!    body replays the counterexample against the real code and real dependencies.

    #[cfg(not(kani))]
    mod tape {
        use std::cell::RefCell;
        thread_local! {
            pub static TAPE: RefCell<Option<(Vec<u8>, usize)>> = RefCell::new(None);
        }
        pub fn pop(n: usize) -> Vec<u8> {
            TAPE.with(|t| {
                let mut t = t.borrow_mut();
                if t.is_none() {
                    let hex = std::env::var("VERIF_INPUT").unwrap_or_default();
                    let mut v = Vec::new();
                    let b = hex.as_bytes();
                    let mut i = 0;
                    while i + 1 < b.len() {
                        let h = (b[i] as char).to_digit(16).unwrap() as u8;
                        let l = (b[i + 1] as char).to_digit(16).unwrap() as u8;
                        v.push(h << 4 | l);
                        i += 2;
                    }
                    *t = Some((v, 0));
                }
                let (v, pos) = t.as_mut().unwrap();
                let mut out = Vec::with_capacity(n);
                for _ in 0..n {
                    out.push(if *pos < v.len() { v[*pos] } else { 0 });
                    *pos += 1;
                }
                out
            })
        }
    }

    #[cfg(kani)]
    pub fn vany_bytes<const N: usize>() -> [u8; N] {
        kani::any()
    }
    #[cfg(not(kani))]
    pub fn vany_bytes<const N: usize>() -> [u8; N] {
        let v = tape::pop(N);
        let mut a = [0u8; N];
        a.copy_from_slice(&v);
        a
    }

    macro_rules! vany_int {
        ($name:ident, $t:ty, $n:expr) => {
            #[cfg(kani)]
            pub fn $name() -> $t {
                kani::any()
            }
            #[cfg(not(kani))]
            pub fn $name() -> $t {
                let v = tape::pop($n);
                let mut a = [0u8; $n];
                a.copy_from_slice(&v);
                <$t>::from_le_bytes(a)
            }
        };
    }
    vany_int!(vany_u8, u8, 1);
    vany_int!(vany_u16, u16, 2);
    vany_int!(vany_u32, u32, 4);
    vany_int!(vany_u64, u64, 8);
    vany_int!(vany_i64, i64, 8);
    vany_int!(vany_usize, usize, 8);

    #[cfg(kani)]
    pub fn vany_bool() -> bool {
        kani::any()
    }
    #[cfg(not(kani))]
    pub fn vany_bool() -> bool {
        tape::pop(1)[0] & 1 == 1
    }

    /// Precondition on the inputs.  Natively an unmet precondition means the
    /// counterexample does not apply: the replay reports that distinctly.
    #[cfg(kani)]
    pub fn vassume(c: bool) {
        kani::assume(c)
    }
    #[cfg(not(kani))]
    pub fn vassume(c: bool) {
        if !c {
            println!("VERIF-REPLAY: precondition-not-met");
            std::process::exit(0);
        }
    }

    /// An index chosen by the solver below `n` (universally quantified element checks
    /// without a loop).  Natively: from the tape, reduced.
    pub fn vany_index(n: usize) -> usize {
        let k = vany_usize();
        #[cfg(kani)]
        {
            kani::assume(k < n);
            k
        }
        #[cfg(not(kani))]
        {
            if n == 0 { 0 } else { k % n }
        }
    }

    #[inline]
    pub fn le32(b: &[u8], at: usize) -> u32 {
        u32::from_le_bytes([b[at], b[at + 1], b[at + 2], b[at + 3]])
    }
    #[inline]
    pub fn le64(b: &[u8], at: usize) -> u64 {
        u64::from_le_bytes([
            b[at], b[at + 1], b[at + 2], b[at + 3], b[at + 4], b[at + 5], b[at + 6], b[at + 7],
        ])
    }

    /// Stub for `<Error as From<io::Error>>::from`: the real body renders the io error with
    /// `to_string()` (costs CBMC > 15 min in `core::str`); the wording of the message is
    /// not part of any property.
    pub fn stub_error_from_io(_e: std::io::Error) -> crate::error::Error {
        crate::error::Error::EncodingFailure(String::new())
    }
}

/// Property assertion.  The `VERIF:` prefix is what the driver keys on.
#[cfg(any(kani, feature = "verif_replay"))]
#[macro_export]
macro_rules! vassert {
    ($cond:expr, $id:literal) => {
        assert!($cond, $id);
    };
}

/// Reachability witness (vacuity guard); native no-op.
#[cfg(any(kani, feature = "verif_replay"))]
#[macro_export]
macro_rules! vcover {
    ($cond:expr, $id:literal) => {
        #[cfg(kani)]
        kani::cover!($cond, $id);
        #[cfg(not(kani))]
        {
            let _ = $cond;
        }
    };
}
