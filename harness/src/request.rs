
// ===========================================================================
// woven by /verif: proof harnesses for src/request.rs (C07 gate + accept logic, C12, C09 routing)
// ===========================================================================
#[cfg(any(kani, feature = "verif_replay"))]
#[allow(dead_code, unused_imports)]
pub(crate) mod verif_request {
    use super::*;
    use crate::message::verif_message::*;
    use crate::verif_support::*;
    use crate::{vassert, vcover};

    pub const DRAFT13: u32 = 0x8000_000c;
    pub const FIXED_SRV: [u8; 32] = [
        0xa0, 0xa7, 0xae, 0xb5, 0xbc, 0xc3, 0xca, 0xd1, 0xd8, 0xdf, 0xe6, 0xed, 0xf4, 0xfb, 0x02, 0x09,
        0x10, 0x17, 0x1e, 0x25, 0x2c, 0x33, 0x3a, 0x41, 0x48, 0x4f, 0x56, 0x5d, 0x64, 0x6b, 0x72, 0x79,
    ];

    #[inline]
    fn eq32_at(buf: &[u8], at: usize, want: &[u8; 32]) -> bool {
        let a = u128::from_le_bytes(buf[at..at + 16].try_into().unwrap());
        let b = u128::from_le_bytes(buf[at + 16..at + 32].try_into().unwrap());
        let c = u128::from_le_bytes(want[0..16].try_into().unwrap());
        let d = u128::from_le_bytes(want[16..32].try_into().unwrap());
        a == c && b == d
    }

    /// position of the field with tag word `t` in the reference view, if any
    fn ref_find(rm: &RefMsg, t: u32, nmax: usize) -> Option<usize> {
        let mut i = 0;
        let mut found = None;
        while i < nmax {
            if i < rm.n && rm.tags[i] == t && found.is_none() {
                found = Some(i);
            }
            i += 1;
        }
        found
    }

    /// Reference accept predicate for a framed (IETF) request, written from the property:
    /// frame length == payload length, payload decodes, VER lists draft-13 among its first four
    /// entries, SRV absent or equal to this server's, NONC present.  Returns the NONC range.
    pub fn ref_rfc_accept(buf: &[u8], expected: &[u8; 32], nmax: usize) -> Option<(usize, usize)> {
        let payload = &buf[12..];
        if le32(buf, 8) as usize != payload.len() {
            return None;
        }
        let rm = ref_decode(payload, nmax)?;
        let ver = ref_find(&rm, T_VER, nmax)?;
        let vs = rm.hdr + rm.start[ver];
        let vlen = rm.end[ver] - rm.start[ver];
        let mut supported = false;
        let mut j = 0;
        while j < 4 {
            if 4 * j + 4 <= vlen && le32(payload, vs + 4 * j) == DRAFT13 {
                supported = true;
            }
            j += 1;
        }
        if !supported {
            return None;
        }
        if let Some(s) = ref_find(&rm, T_SRV, nmax) {
            let slen = rm.end[s] - rm.start[s];
            if slen != 32 || !eq32_at(payload, rm.hdr + rm.start[s], expected) {
                return None;
            }
        }
        let n = ref_find(&rm, T_NONC, nmax)?;
        // a well-formed IETF request carries a 32-byte nonce (it is echoed in the reply)
        if rm.end[n] - rm.start[n] != 32 {
            return None;
        }
        Some((12 + rm.hdr + rm.start[n], 12 + rm.hdr + rm.end[n]))
    }

    fn check_nonce(got: &[u8], buf: &[u8], range: (usize, usize)) {
        vassert!(got.len() == range.1 - range.0, "VERIF:C07:returned-nonce-length-is-NONC-length");
        if got.len() > 0 {
            let k = vany_index(got.len());
            vassert!(got[k] == buf[range.0 + k], "VERIF:C09:returned-nonce-is-the-request-NONC");
        }
    }

    // ------------------------------------------------------------------ G1: the size gate
    //@ family c07_gate props=C07 mode=strict mod=request::verif_request needs=src/message.rs
    //@ harness c07_gate_out_of_range tier=quick shape="num_bytes any usize outside 1024..=1500, parsers stubbed to accept everything" must_cover=COVER:too-short,COVER:too-long
    /// The inner parsers are replaced by stubs that accept *every* datagram, so the size gate is
    /// the only thing that can reject: the assertion fails for any size the gate lets through.
    /// (Without the stubs CBMC also explores the infeasible in-range branch, i.e. from_bytes on
    /// a slice of symbolic length, and does not finish.)
    #[cfg_attr(kani, kani::proof)]
    #[cfg_attr(kani, kani::unwind(4))]
    #[cfg_attr(kani, kani::stub(crate::request::nonce_from_classic_request, crate::request::verif_request::stub_accept_classic))]
    #[cfg_attr(kani, kani::stub(crate::request::nonce_from_rfc_request, crate::request::verif_request::stub_accept_rfc))]
    #[cfg_attr(not(kani), test)]
    fn c07_gate_out_of_range() {
        let n = vany_usize();
        vassume(n < 1024 || n > 1500);
        let buf = [0u8; 2048];
        let srv = [0u8; 32];
        let r = nonce_from_request(&buf, n, &srv);
        vcover!(n < 1024, "COVER:too-short");
        vcover!(n > 1500, "COVER:too-long");
        vassert!(r.is_err(), "VERIF:C07:datagram-outside-1024-1500-rejected");
        if n < 1024 {
            vassert!(matches!(r, Err(Error::RequestTooShort)), "VERIF:C07:short-datagram-error-kind");
        } else {
            vassert!(matches!(r, Err(Error::RequestTooLarge)), "VERIF:C07:long-datagram-error-kind");
        }
        core::mem::forget(r);
    }

    pub fn stub_accept_classic(_buf: &[u8]) -> Result<(Vec<u8>, Version), Error> {
        Ok((Vec::new(), Version::Google))
    }
    pub fn stub_accept_rfc(_buf: &[u8], _srv: &[u8]) -> Result<(Vec<u8>, Version), Error> {
        Ok((Vec::new(), Version::RfcDraft13))
    }

    //@ harness c09_is_rfc_request tier=quick shape="first 8 bytes symbolic" must_cover=COVER:framed,COVER:unframed
    #[cfg_attr(kani, kani::proof)]
    #[cfg_attr(kani, kani::unwind(10))]
    #[cfg_attr(not(kani), test)]
    fn c09_is_rfc_request() {
        let b: [u8; 16] = vany_bytes::<16>();
        let magic = le64(&b, 0) == u64::from_le_bytes(*b"ROUGHTIM");
        vcover!(magic, "COVER:framed");
        vcover!(!magic, "COVER:unframed");
        vassert!(is_rfc_request(&b) == magic, "VERIF:C07:framed-iff-starts-with-ROUGHTIM");
    }

    // ------------------------------------------------------------------ G2: accept logic, classic
    pub fn classic_body<const L: usize>(n: u32, nmax: usize) {
        let mut buf: [u8; L] = vany_bytes::<L>();
        buf[0..4].copy_from_slice(&n.to_le_bytes());
        let r = nonce_from_classic_request(&buf);
        // well-formed classic request: decodes, has NONC, and NONC is the protocol's 64 bytes
        let want = match ref_decode(&buf, nmax) {
            Some(rm) => match ref_find(&rm, T_NONC, nmax) {
                Some(i) if rm.end[i] - rm.start[i] == 64 => Some((rm.hdr + rm.start[i], rm.hdr + rm.end[i])),
                _ => None,
            },
            None => None,
        };
        vcover!(r.is_ok(), "COVER:accepted");
        vcover!(r.is_err(), "COVER:rejected");
        vassert!(r.is_ok() == want.is_some(), "VERIF:C07:classic-accepted-iff-wellformed-with-64-byte-NONC");
        if let (Ok((nonce, ver)), Some(range)) = (&r, want) {
            vassert!(*ver == Version::Google, "VERIF:C09:unframed-request-is-classic");
            check_nonce(nonce, &buf, range);
        }
        core::mem::forget(r);
    }

    macro_rules! c07_classic {
        ($name:ident, $n:expr, $len:expr, $nmax:expr, $unwind:expr) => {
            #[cfg_attr(kani, kani::proof)]
            #[cfg_attr(kani, kani::unwind($unwind))]
            #[cfg_attr(kani, kani::stub(<crate::error::Error as std::convert::From<std::io::Error>>::from, crate::verif_support::stub_error_from_io))]
            #[cfg_attr(not(kani), test)]
            fn $name() {
                classic_body::<$len>($n, $nmax);
            }
        };
    }
    //@ family c07_classic props=C07,C08,C09 mode=strict mod=request::verif_request needs=src/message.rs must_cover=COVER:rejected
    //@ harness c07_classic_n1_l12 tier=quick shape="unframed, count=1 len=12, tag+value symbolic (too short for a nonce)"
    c07_classic!(c07_classic_n1_l12, 1, 12, 1, 6);
    //@ harness c07_classic_n1_l72 tier=quick shape="unframed, count=1 len=72: tag and 64 value bytes symbolic" must_cover=COVER:accepted,COVER:rejected
    c07_classic!(c07_classic_n1_l72, 1, 72, 1, 6);
    //@ harness c07_classic_n2_l24 tier=quick shape="unframed, count=2 len=24, offsets/tags/values symbolic (too short for a nonce)"
    c07_classic!(c07_classic_n2_l24, 2, 24, 2, 6);
    //@ harness c07_classic_n2_l84 tier=quick shape="unframed, count=2 len=84: offset, tags, 68 value bytes symbolic (nonce 64 + 4 or other splits)" must_cover=COVER:accepted,COVER:rejected timeout=600
    c07_classic!(c07_classic_n2_l84, 2, 84, 2, 6);
    //@ harness c07_classic_n0_l8 tier=quick shape="unframed, count=0 len=8"
    c07_classic!(c07_classic_n0_l8, 0, 8, 0, 6);
    //@ harness c07_classic_n3_l32 tier=thorough shape="unframed, count=3 len=32" required=no
    c07_classic!(c07_classic_n3_l32, 3, 32, 3, 7);

    // ------------------------------------------------------------------ G2: accept logic, IETF (fully symbolic small frames)
    pub fn rfc_body<const L: usize>(n: u32, nmax: usize) {
        let mut buf: [u8; L] = vany_bytes::<L>();
        buf[0..8].copy_from_slice(b"ROUGHTIM");
        buf[12..16].copy_from_slice(&n.to_le_bytes());
        let expected: [u8; 32] = vany_bytes::<32>();
        let r = nonce_from_rfc_request(&buf, &expected);
        let want = ref_rfc_accept(&buf, &expected, nmax);
        vcover!(r.is_ok(), "COVER:accepted");
        vcover!(r.is_err(), "COVER:rejected");
        vassert!(r.is_ok() == want.is_some(), "VERIF:C07:framed-accepted-iff-reference-accepts");
        if let (Ok((nonce, ver)), Some(range)) = (&r, want) {
            vassert!(*ver == Version::RfcDraft13, "VERIF:C12:accepted-framed-request-is-draft13");
            check_nonce(nonce, &buf, range);
        }
        core::mem::forget(r);
    }

    macro_rules! c07_rfc {
        ($name:ident, $n:expr, $len:expr, $nmax:expr, $unwind:expr) => {
            #[cfg_attr(kani, kani::proof)]
            #[cfg_attr(kani, kani::unwind($unwind))]
            #[cfg_attr(kani, kani::stub(<crate::error::Error as std::convert::From<std::io::Error>>::from, crate::verif_support::stub_error_from_io))]
            #[cfg_attr(not(kani), test)]
            fn $name() {
                rfc_body::<$len>($n, $nmax);
            }
        };
    }
    //@ family c07_rfc props=C07,C08,C09,C12 mode=strict mod=request::verif_request needs=src/message.rs must_cover=COVER:rejected
    //@ harness c07_rfc_n1_l24 tier=quick shape="frame + count=1 payload 12 B; frame length, tag, value symbolic"
    c07_rfc!(c07_rfc_n1_l24, 1, 24, 1, 8);
    //@ harness c07_rfc_n2_l36 tier=thorough shape="frame + count=2 payload 24 B; frame length, offsets, tags, values symbolic (too short for a nonce)" timeout=600 required=no
    c07_rfc!(c07_rfc_n2_l36, 2, 36, 2, 8);
    //@ harness c07_rfc_n2_l64 tier=thorough shape="frame + count=2 payload 52 B (room for VER 4 + NONC 32); everything but magic and count symbolic" must_cover=COVER:accepted,COVER:rejected timeout=900 required=no
    c07_rfc!(c07_rfc_n2_l64, 2, 64, 2, 8);
    //@ harness c07_rfc_n3_l104 tier=thorough shape="frame + count=3 payload 92 B (room for VER 4, SRV 32, NONC 32)" must_cover=COVER:accepted,COVER:rejected required=no
    c07_rfc!(c07_rfc_n3_l104, 3, 104, 3, 8);

    // ------------------------------------------------------------------ C12: version list / SRV, concrete layout, symbolic words
    /// Framed request {VER (K words), [SRV (SL bytes)], NONC (32 bytes)} with the header concrete
    /// and every VER word, every SRV byte, the expected SRV and the nonce symbolic.
    pub fn c12_body<const K: usize, const SL: usize, const L: usize>(with_srv: bool, sym_expected: bool) {
        let mut buf: [u8; L] = vany_bytes::<L>();
        let nf: u32 = if with_srv { 3 } else { 2 };
        buf[0..8].copy_from_slice(b"ROUGHTIM");
        buf[8..12].copy_from_slice(&((L - 12) as u32).to_le_bytes());
        buf[12..16].copy_from_slice(&nf.to_le_bytes());
        let (vbase, srv_at) = if with_srv {
            buf[16..20].copy_from_slice(&((4 * K) as u32).to_le_bytes());
            buf[20..24].copy_from_slice(&((4 * K + SL) as u32).to_le_bytes());
            buf[24..28].copy_from_slice(&T_VER.to_le_bytes());
            buf[28..32].copy_from_slice(&T_SRV.to_le_bytes());
            buf[32..36].copy_from_slice(&T_NONC.to_le_bytes());
            (36, 36 + 4 * K)
        } else {
            buf[16..20].copy_from_slice(&((4 * K) as u32).to_le_bytes());
            buf[20..24].copy_from_slice(&T_VER.to_le_bytes());
            buf[24..28].copy_from_slice(&T_NONC.to_le_bytes());
            (28, 0)
        };
        // comparing 32 symbolic bytes with 32 symbolic bytes through memcmp costs the SAT solver
        // ~250 s; the quick shapes fix this server's SRV to a byte pattern and keep the
        // request's SRV fully symbolic
        let mut expected: [u8; 32] = vany_bytes::<32>();
        if !sym_expected {
            expected = FIXED_SRV;
        }
        let r = nonce_from_rfc_request(&buf, &expected);

        let mut anywhere = false;
        let mut first4 = false;
        let mut j = 0;
        while j < K {
            if le32(&buf, vbase + 4 * j) == DRAFT13 {
                anywhere = true;
                if j < 4 {
                    first4 = true;
                }
            }
            j += 1;
        }
        let srv_ok = if with_srv { SL == 32 && eq32_at(&buf, srv_at, &expected) } else { true };
        let nonce_len = L - vbase - 4 * K - if with_srv { SL } else { 0 };
        let nonce_ok = nonce_len == 32;
        vcover!(r.is_ok(), "COVER:answered");
        vcover!(r.is_err(), "COVER:dropped");
        vassert!(!r.is_ok() || anywhere, "VERIF:C12:answered-only-if-version-list-contains-draft13");
        vassert!(!(first4 && srv_ok && nonce_ok) || r.is_ok(), "VERIF:C12:answered-when-draft13-among-first-four-and-srv-matches");
        vassert!(nonce_ok || r.is_err(), "VERIF:C07:framed-request-with-a-nonce-that-is-not-32-bytes-dropped");
        vassert!(!(with_srv && !srv_ok) || r.is_err(), "VERIF:C12:dropped-when-srv-is-not-this-servers");
        if let Ok((nonce, ver)) = &r {
            vassert!(*ver == Version::RfcDraft13, "VERIF:C12:accepted-framed-request-is-draft13");
            check_nonce(nonce, &buf, (L - nonce_len, L));
        }
        core::mem::forget(r);
    }

    macro_rules! c12_ver {
        ($name:ident, $k:expr, $sl:expr, $len:expr, $srv:expr, $sym:expr, $unwind:expr) => {
            #[cfg_attr(kani, kani::proof)]
            #[cfg_attr(kani, kani::unwind($unwind))]
            #[cfg_attr(kani, kani::stub(<crate::error::Error as std::convert::From<std::io::Error>>::from, crate::verif_support::stub_error_from_io))]
            #[cfg_attr(not(kani), test)]
            fn $name() {
                c12_body::<$k, $sl, $len>($srv, $sym);
            }
        };
    }
    //@ family c12_ver props=C12 mode=strict mod=request::verif_request needs=src/message.rs must_cover=COVER:dropped
    //@ harness c12_ver_k0 tier=quick shape="VER list of 0 words, no SRV"
    c12_ver!(c12_ver_k0, 0, 0, 60, false, true, 8);
    //@ harness c12_ver_k1 tier=quick shape="VER list of 1 symbolic word, no SRV" must_cover=COVER:answered,COVER:dropped
    c12_ver!(c12_ver_k1, 1, 0, 64, false, true, 8);
    //@ harness c12_ver_k2 tier=quick shape="VER list of 2 symbolic words, no SRV" must_cover=COVER:answered,COVER:dropped
    c12_ver!(c12_ver_k2, 2, 0, 68, false, true, 8);
    //@ harness c12_ver_k3 tier=quick shape="VER list of 3 symbolic words, no SRV" must_cover=COVER:answered,COVER:dropped
    c12_ver!(c12_ver_k3, 3, 0, 72, false, true, 8);
    //@ harness c12_ver_k4 tier=thorough shape="VER list of 4 symbolic words, no SRV" must_cover=COVER:answered,COVER:dropped
    c12_ver!(c12_ver_k4, 4, 0, 76, false, true, 8);
    //@ harness c12_ver_k5 tier=quick shape="VER list of 5 symbolic words, no SRV" must_cover=COVER:answered,COVER:dropped
    c12_ver!(c12_ver_k5, 5, 0, 80, false, true, 8);
    //@ harness c12_ver_k6 tier=thorough shape="VER list of 6 symbolic words, no SRV" must_cover=COVER:answered,COVER:dropped
    c12_ver!(c12_ver_k6, 6, 0, 84, false, true, 8);
    //@ harness c12_ver_k1_nonce36 tier=quick props=C12,C07 shape="VER 1 symbolic word, NONC of 36 bytes (too long), no SRV"
    c12_ver!(c12_ver_k1_nonce36, 1, 0, 68, false, true, 8);
    //@ harness c12_ver_k1_nonce64 tier=quick props=C12,C07 shape="VER 1 symbolic word, NONC of 64 bytes (classic size in a framed request), no SRV"
    c12_ver!(c12_ver_k1_nonce64, 1, 0, 96, false, true, 8);
    //@ harness c12_ver_k1_nonce28 tier=quick props=C12,C07 shape="VER 1 symbolic word, NONC of 28 bytes (too short), no SRV"
    c12_ver!(c12_ver_k1_nonce28, 1, 0, 60, false, true, 8);
    //@ harness c12_srv32_k1 tier=thorough shape="VER 1 word + SRV 32 symbolic bytes vs symbolic expected SRV" must_cover=COVER:answered,COVER:dropped
    c12_ver!(c12_srv32_k1, 1, 32, 104, true, true, 8);
    //@ harness c12_srv32_k1_fixed tier=thorough shape="VER 1 word + SRV 32 symbolic bytes vs a fixed expected SRV" must_cover=COVER:answered,COVER:dropped
    c12_ver!(c12_srv32_k1_fixed, 1, 32, 104, true, false, 8);
    //@ harness c12_srv32_k2 tier=thorough shape="VER 2 words + SRV 32 symbolic bytes" must_cover=COVER:answered,COVER:dropped
    c12_ver!(c12_srv32_k2, 2, 32, 108, true, true, 8);
    //@ harness c12_srv4_k1 tier=quick shape="VER 1 word + SRV of 4 symbolic bytes (wrong length; may equal a prefix of the server's value)"
    c12_ver!(c12_srv4_k1, 1, 4, 76, true, true, 8);
    //@ harness c12_srv28_k1 tier=quick shape="VER 1 word + SRV of 28 bytes (wrong length)"
    c12_ver!(c12_srv28_k1, 1, 28, 100, true, true, 8);
    //@ harness c12_srv36_k1 tier=thorough shape="VER 1 word + SRV of 36 bytes (wrong length)"
    c12_ver!(c12_srv36_k1, 1, 36, 108, true, true, 8);
    //@ harness c12_srv0_k1 tier=quick shape="VER 1 word + empty SRV"
    c12_ver!(c12_srv0_k1, 1, 0, 72, true, true, 8);

    // ------------------------------------------------------------------ C12: the version scan on its own
    /// get_supported_version on a message {VER: K arbitrary words} built through the API (no decoding
    /// involved): draft-13 is found whenever it is among the first four entries, and only if it is in
    /// the list at all.
    pub fn scan_body<const K: usize, const VL: usize>() {
        let words: [u8; VL] = vany_bytes::<VL>();
        let mut msg = RtMessage::with_capacity(1);
        msg.add_field(Tag::VER, &words[..4 * K]).unwrap();
        let r = get_supported_version(&msg);
        let mut anywhere = false;
        let mut first4 = false;
        let mut j = 0;
        while j < K {
            if le32(&words, 4 * j) == DRAFT13 {
                anywhere = true;
                if j < 4 {
                    first4 = true;
                }
            }
            j += 1;
        }
        vcover!(r.is_some(), "COVER:answered");
        vcover!(r.is_none(), "COVER:dropped");
        vassert!(r.is_none() || anywhere, "VERIF:C12:answered-only-if-version-list-contains-draft13");
        vassert!(!first4 || r == Some(Version::RfcDraft13), "VERIF:C12:answered-when-draft13-among-first-four-and-srv-matches");
        core::mem::forget(msg);
    }
    macro_rules! c12_scan {
        ($name:ident, $k:expr, $vl:expr) => {
            #[cfg_attr(kani, kani::proof)]
            #[cfg_attr(kani, kani::unwind(8))]
            #[cfg_attr(not(kani), test)]
            fn $name() {
                scan_body::<$k, $vl>();
            }
        };
    }
    //@ family c12_scan props=C12 mode=strict mod=request::verif_request needs=src/message.rs must_cover=COVER:dropped
    //@ harness c12_scan_k0 tier=quick shape="version scan: empty VER value"
    c12_scan!(c12_scan_k0, 0, 4);
    //@ harness c12_scan_k1 tier=quick shape="version scan: 1 arbitrary word" must_cover=COVER:answered,COVER:dropped
    c12_scan!(c12_scan_k1, 1, 4);
    //@ harness c12_scan_k2 tier=quick shape="version scan: 2 arbitrary words" must_cover=COVER:answered,COVER:dropped
    c12_scan!(c12_scan_k2, 2, 8);
    //@ harness c12_scan_k4 tier=quick shape="version scan: 4 arbitrary words" must_cover=COVER:answered,COVER:dropped
    c12_scan!(c12_scan_k4, 4, 16);
    //@ harness c12_scan_k6 tier=quick shape="version scan: 6 arbitrary words" must_cover=COVER:answered,COVER:dropped
    c12_scan!(c12_scan_k6, 6, 24);
}
