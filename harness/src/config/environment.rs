
// ===========================================================================
// woven by /verif: proof harnesses for src/config/environment.rs (C16, environment source)
// ===========================================================================
#[cfg(any(kani, feature = "verif_replay"))]
#[allow(dead_code, unused_imports)]
pub(crate) mod verif_environment {
    use super::*;
    use crate::verif_support::*;
    use crate::{vassert, vcover};

    /// the documented variable names (README.md / ServerConfig documentation table)
    pub const DOC_NAMES: [&str; 8] = [
        "ROUGHENOUGH_INTERFACE",
        "ROUGHENOUGH_PORT",
        "ROUGHENOUGH_SEED",
        "ROUGHENOUGH_BATCH_SIZE",
        "ROUGHENOUGH_STATUS_INTERVAL",
        "ROUGHENOUGH_HEALTH_CHECK_PORT",
        "ROUGHENOUGH_FAULT_PERCENTAGE",
        "ROUGHENOUGH_NUM_WORKERS",
    ];
    pub const VALUES: [&str; 8] = [
        "127.0.0.1",
        "8686",
        "f61075c988feb9cb700a4a6a3291bfbc9cab11b9c9eca8c802468eb38a43d7d3",
        "32",
        "100",
        "8000",
        "5",
        "3",
    ];

    /// which variables are set in the modelled environment (bit i => DOC_NAMES[i])
    pub static mut ENV_MASK: u32 = 0;
    /// when set, the value of variable OVERRIDE_IDX is this 6-digit decimal text
    pub static mut OVERRIDE_IDX: usize = 99;
    pub static mut OVERRIDE_TXT: [u8; 6] = [b'0'; 6];

    /// model of std::env::var: a variable is present iff the harness set exactly that name
    pub fn stub_env_var<K: AsRef<std::ffi::OsStr>>(key: K) -> Result<String, std::env::VarError> {
        let k = key.as_ref();
        let mut i = 0;
        while i < 8 {
            if unsafe { ENV_MASK } & (1 << i) != 0 && k == std::ffi::OsStr::new(DOC_NAMES[i]) {
                if unsafe { OVERRIDE_IDX } == i {
                    let t = unsafe { OVERRIDE_TXT };
                    return Ok(String::from_utf8(t.to_vec()).unwrap());
                }
                return Ok(VALUES[i].to_string());
            }
            i += 1;
        }
        Err(std::env::VarError::NotPresent)
    }
    pub fn stub_hex_decode(_e: &data_encoding::Encoding, input: &[u8]) -> Result<Vec<u8>, data_encoding::DecodeError> {
        Ok(vec![0u8; input.len() / 2])
    }
    pub fn stub_available_parallelism() -> std::io::Result<std::num::NonZero<usize>> {
        Ok(std::num::NonZero::new(4).unwrap())
    }

    /// Set one documented variable (plus the three required ones) and load the configuration.
    pub fn env_body(which: usize) {
        let mask: u32 = 0b111 | (1 << which);
        #[cfg(kani)]
        unsafe {
            ENV_MASK = mask;
        }
        #[cfg(not(kani))]
        {
            for i in 0..8 {
                if mask & (1 << i) != 0 {
                    std::env::set_var(DOC_NAMES[i], VALUES[i]);
                } else {
                    std::env::remove_var(DOC_NAMES[i]);
                }
            }
        }
        let cfg = EnvironmentConfig::new().unwrap();
        vcover!(true, "COVER:env-loaded");
        vassert!(cfg.interface() == "127.0.0.1", "VERIF:C16:env-interface-is-the-value-written");
        vassert!(cfg.port() == 8686, "VERIF:C16:env-port-is-the-value-written");
        vassert!(cfg.seed().len() == 32, "VERIF:C16:env-seed-is-the-value-written");
        match which {
            3 => { vassert!(cfg.batch_size() == 32, "VERIF:C16:env-batch-size-is-the-value-written"); }
            4 => { vassert!(cfg.status_interval().as_secs() == 100, "VERIF:C16:env-status-interval-is-the-value-written"); }
            5 => { vassert!(cfg.health_check_port() == Some(8000), "VERIF:C16:env-health-check-port-is-the-value-written"); }
            6 => { vassert!(cfg.fault_percentage() == 5, "VERIF:C16:env-fault-percentage-is-the-value-written"); }
            7 => { vassert!(cfg.num_workers() == 3, "VERIF:C16:env-num-workers-is-the-value-written"); }
            _ => {}
        }
        core::mem::forget(cfg);
    }

    /// One numeric variable carries an arbitrary value 0..=999999 (six decimal digits, symbolic):
    /// the loader either refuses it (panics) or the effective setting is exactly that value and
    /// inside the documented range.
    pub fn env_range_body(which: usize) {
        let v = vany_u32();
        vassume(v < 1_000_000);
        let mut txt = [b'0'; 6];
        let mut r = v;
        let mut i = 6;
        while i > 0 {
            i -= 1;
            txt[i] = b'0' + (r % 10) as u8;
            r /= 10;
        }
        let mask: u32 = 0b111 | (1 << which);
        #[cfg(kani)]
        unsafe {
            ENV_MASK = mask;
            OVERRIDE_IDX = which;
            OVERRIDE_TXT = txt;
        }
        #[cfg(not(kani))]
        {
            for i in 0..8 {
                if mask & (1 << i) != 0 {
                    std::env::set_var(DOC_NAMES[i], VALUES[i]);
                } else {
                    std::env::remove_var(DOC_NAMES[i]);
                }
            }
            std::env::set_var(DOC_NAMES[which], String::from_utf8(txt.to_vec()).unwrap());
        }
        let cfg = EnvironmentConfig::new().unwrap();
        // the loader accepted the text; start-up goes on only if the configuration validates
        let accepted = match which {
            1 => cfg.port() != 0,
            3 => cfg.batch_size() >= 1 && cfg.batch_size() <= 64,
            6 => cfg.fault_percentage() <= 50,
            7 => cfg.num_workers() >= 1,
            _ => true,
        };
        vcover!(accepted, "COVER:env-loaded");
        if accepted {
            let effective: u64 = match which {
                1 => cfg.port() as u64,
                3 => cfg.batch_size() as u64,
                4 => cfg.status_interval().as_secs(),
                5 => cfg.health_check_port().map(|p| p as u64).unwrap_or(u64::MAX),
                6 => cfg.fault_percentage() as u64,
                _ => cfg.num_workers() as u64,
            };
            vassert!(effective == v as u64, "VERIF:C16:env-effective-setting-equals-the-value-written");
        }
        core::mem::forget(cfg);
    }

    macro_rules! c16_env_range {
        ($name:ident, $which:expr) => {
            #[cfg_attr(kani, kani::proof)]
            #[cfg_attr(kani, kani::unwind(12))]
            #[cfg_attr(kani, kani::stub(data_encoding::Encoding::decode, crate::config::environment::verif_environment::stub_hex_decode))]
            #[cfg_attr(kani, kani::stub(std::env::var, crate::config::environment::verif_environment::stub_env_var))]
            #[cfg_attr(kani, kani::stub(std::thread::available_parallelism, crate::config::environment::verif_environment::stub_available_parallelism))]
            #[cfg_attr(not(kani), test)]
            fn $name() {
                env_range_body($which);
            }
        };
    }
    //@ family c16_env_range props=C16 mode=panics-ok mod=config::environment::verif_environment must_cover=COVER:env-loaded timeout=900
    //@ harness c16_env_range_port tier=quick shape="ROUGHENOUGH_PORT = any value 0..=999999 (six symbolic decimal digits)"
    c16_env_range!(c16_env_range_port, 1);
    //@ harness c16_env_range_batch_size tier=quick shape="ROUGHENOUGH_BATCH_SIZE = any value 0..=999999"
    c16_env_range!(c16_env_range_batch_size, 3);
    //@ harness c16_env_range_fault_percentage tier=quick shape="ROUGHENOUGH_FAULT_PERCENTAGE = any value 0..=999999"
    c16_env_range!(c16_env_range_fault_percentage, 6);
    //@ harness c16_env_range_status_interval tier=thorough shape="ROUGHENOUGH_STATUS_INTERVAL = any value 0..=999999"
    c16_env_range!(c16_env_range_status_interval, 4);
    //@ harness c16_env_range_health_check_port tier=thorough shape="ROUGHENOUGH_HEALTH_CHECK_PORT = any value 0..=999999"
    c16_env_range!(c16_env_range_health_check_port, 5);
    //@ harness c16_env_range_num_workers tier=thorough shape="ROUGHENOUGH_NUM_WORKERS = any value 0..=999999"
    c16_env_range!(c16_env_range_num_workers, 7);

    macro_rules! c16_env {
        ($name:ident, $which:expr) => {
            #[cfg_attr(kani, kani::proof)]
            #[cfg_attr(kani, kani::unwind(12))]
            #[cfg_attr(kani, kani::stub(data_encoding::Encoding::decode, crate::config::environment::verif_environment::stub_hex_decode))]
            #[cfg_attr(kani, kani::stub(std::env::var, crate::config::environment::verif_environment::stub_env_var))]
            #[cfg_attr(kani, kani::stub(std::thread::available_parallelism, crate::config::environment::verif_environment::stub_available_parallelism))]
            #[cfg_attr(not(kani), test)]
            fn $name() {
                env_body($which);
            }
        };
    }

    //@ family c16_env props=C16 mode=panics-ok mod=config::environment::verif_environment must_cover=COVER:env-loaded timeout=900
    //@ harness c16_env_batch_size tier=quick shape="ROUGHENOUGH_BATCH_SIZE=32 (+ required variables)"
    c16_env!(c16_env_batch_size, 3);
    //@ harness c16_env_status_interval tier=quick shape="ROUGHENOUGH_STATUS_INTERVAL=100"
    c16_env!(c16_env_status_interval, 4);
    //@ harness c16_env_health_check_port tier=quick shape="ROUGHENOUGH_HEALTH_CHECK_PORT=8000"
    c16_env!(c16_env_health_check_port, 5);
    //@ harness c16_env_fault_percentage tier=quick shape="ROUGHENOUGH_FAULT_PERCENTAGE=5"
    c16_env!(c16_env_fault_percentage, 6);
    //@ harness c16_env_num_workers tier=quick shape="ROUGHENOUGH_NUM_WORKERS=3"
    c16_env!(c16_env_num_workers, 7);
}
