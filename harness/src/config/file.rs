
// ===========================================================================
// woven by /verif: proof harnesses for src/config/file.rs + is_valid_config (C16, file source)
// ===========================================================================
#[cfg(any(kani, feature = "verif_replay"))]
#[allow(dead_code, unused_imports)]
pub(crate) mod verif_file {
    use super::*;
    use crate::config::is_valid_config;
    use crate::verif_support::*;
    use crate::{vassert, vcover};

    pub const SEED_HEX: &str = "f61075c988feb9cb700a4a6a3291bfbc9cab11b9c9eca8c802468eb38a43d7d3";

    // ---- stubs for what FileConfig::new touches outside the language (Kani only)
    pub fn stub_file_open<P: AsRef<std::path::Path>>(_p: P) -> std::io::Result<File> {
        use std::os::fd::FromRawFd;
        Ok(unsafe { File::from_raw_fd(100) })
    }
    pub fn stub_read_to_string(_f: &mut File, _buf: &mut String) -> std::io::Result<usize> {
        Ok(0)
    }
    pub fn stub_ownedfd_drop(_fd: &mut std::os::fd::OwnedFd) {}
    pub fn stub_available_parallelism() -> std::io::Result<std::num::NonZero<usize>> {
        Ok(std::num::NonZero::new(4).unwrap())
    }
    /// format! is used by udp_socket_addr ("{interface}:{port}", then parsed) and for error texts;
    /// the formatting machinery is out of CBMC's reach, a fixed valid address text stands in
    pub fn stub_format(_args: core::fmt::Arguments<'_>) -> String {
        String::from("127.0.0.1:1")
    }

    /// which: 0 port, 1 batch_size, 2 status_interval, 3 health_check_port, 4 fault_percentage, 5 num_workers
    const KEYS: [&str; 6] = ["port", "batch_size", "status_interval", "health_check_port", "fault_percentage", "num_workers"];
    const DEFAULTS: [i64; 6] = [8686, 32, 100, 8000, 5, 3];

    fn load(values: &[i64; 6]) -> Result<FileConfig, Error> {
        #[cfg(kani)]
        {
            use yaml_rust::{Hash, Yaml};
            let s = |x: &str| Yaml::String(x.to_string());
            let mut items = Vec::with_capacity(9);
            items.push((s("interface"), s("127.0.0.1")));
            items.push((s("seed"), s(SEED_HEX)));
            let mut i = 0;
            while i < 6 {
                items.push((s(KEYS[i]), Yaml::Integer(values[i])));
                i += 1;
            }
            yaml_rust::model_set_doc(vec![Yaml::Hash(Hash { items })]);
            FileConfig::new("verif.cfg")
        }
        #[cfg(not(kani))]
        {
            // replay: a real file, the real YAML parser
            let mut text = format!("interface: 127.0.0.1\nseed: {}\n", SEED_HEX);
            for i in 0..6 {
                text.push_str(&format!("{}: {}\n", KEYS[i], values[i]));
            }
            let path = std::env::temp_dir().join(format!("verif-c16-{}.cfg", std::process::id()));
            std::fs::write(&path, text).unwrap();
            let r = std::panic::catch_unwind(|| FileConfig::new(path.to_str().unwrap()));
            let _ = std::fs::remove_file(&path);
            match r {
                Ok(v) => v,
                // a loader panic is a refused start
                Err(_) => Err(Error::InvalidConfiguration("loader panicked".to_string())),
            }
        }
    }

    pub fn file_body(which: usize) {
        let v = vany_i64();
        let mut values = DEFAULTS;
        values[which] = v;
        let r = load(&values);
        let accepted = match &r {
            Ok(cfg) => is_valid_config(cfg),
            Err(_) => false,
        };
        vcover!(accepted, "COVER:start-accepted");
        vcover!(!accepted, "COVER:start-refused");
        if let (true, Ok(cfg)) = (accepted, &r) {
            let effective: i128 = match which {
                0 => cfg.port() as i128,
                1 => cfg.batch_size() as i128,
                2 => cfg.status_interval().as_secs() as i128,
                3 => cfg.health_check_port().map(|p| p as i128).unwrap_or(-1),
                4 => cfg.fault_percentage() as i128,
                _ => cfg.num_workers() as i128,
            };
            vassert!(effective == v as i128, "VERIF:C16:effective-setting-equals-the-value-written-in-the-file");
            let in_range = match which {
                0 => v >= 1 && v <= 65535,
                1 => v >= 1 && v <= 64,
                4 => v >= 0 && v <= 50,
                5 => v >= 1,
                _ => true,
            };
            vassert!(in_range, "VERIF:C16:out-of-range-value-refused");
            // the settings that were not varied keep their written values too
            vassert!(which == 0 || cfg.port() == 8686, "VERIF:C16:other-settings-unaffected");
            vassert!(which == 1 || cfg.batch_size() == 32, "VERIF:C16:other-settings-unaffected");
            vassert!(which == 4 || cfg.fault_percentage() == 5, "VERIF:C16:other-settings-unaffected");
            vassert!(which == 5 || cfg.num_workers() == 3, "VERIF:C16:other-settings-unaffected");
        }
        // in-range values must not be refused
        let must_accept = match which {
            0 => v >= 1 && v <= 65535,
            1 => v >= 1 && v <= 64,
            2 => v >= 1 && v <= 65535,
            3 => v >= 1 && v <= 65535,
            4 => v >= 0 && v <= 50,
            _ => v >= 1 && v <= 1024,
        };
        vassert!(!must_accept || accepted, "VERIF:C16:documented-in-range-value-accepted");
        core::mem::forget(r);
    }

    macro_rules! c16_file {
        ($name:ident, $which:expr) => {
            #[cfg_attr(kani, kani::proof)]
            #[cfg_attr(kani, kani::unwind(70))]
            #[cfg_attr(kani, kani::stub(std::fs::File::open, crate::config::file::verif_file::stub_file_open))]
            #[cfg_attr(kani, kani::stub(<std::fs::File as std::io::Read>::read_to_string, crate::config::file::verif_file::stub_read_to_string))]
            #[cfg_attr(kani, kani::stub(<std::os::fd::OwnedFd as std::ops::Drop>::drop, crate::config::file::verif_file::stub_ownedfd_drop))]
            #[cfg_attr(kani, kani::stub(std::thread::available_parallelism, crate::config::file::verif_file::stub_available_parallelism))]
            #[cfg_attr(kani, kani::stub(alloc::fmt::format, crate::config::file::verif_file::stub_format))]
            #[cfg_attr(not(kani), test)]
            fn $name() {
                file_body($which);
            }
        };
    }

    //@ family c16_file props=C16 mode=panics-ok mod=config::file::verif_file must_cover=COVER:start-accepted,COVER:start-refused timeout=900
    //@ harness c16_file_port tier=quick shape="port: any i64"
    c16_file!(c16_file_port, 0);
    //@ harness c16_file_batch_size tier=quick shape="batch_size: any i64"
    c16_file!(c16_file_batch_size, 1);
    //@ harness c16_file_status_interval tier=quick shape="status_interval: any i64"
    c16_file!(c16_file_status_interval, 2);
    //@ harness c16_file_health_check_port tier=quick shape="health_check_port: any i64"
    c16_file!(c16_file_health_check_port, 3);
    //@ harness c16_file_fault_percentage tier=quick shape="fault_percentage: any i64"
    c16_file!(c16_file_fault_percentage, 4);
    //@ harness c16_file_num_workers tier=quick shape="num_workers: any i64"
    c16_file!(c16_file_num_workers, 5);
}
