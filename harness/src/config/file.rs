
// ===========================================================================
// woven by /verif: proof harnesses for src/config/file.rs + is_valid_config (C16, file source)
// ===========================================================================
#[cfg(any(kani, feature = "verif_replay"))]
#[allow(dead_code, unused_imports)]
pub(crate) mod verif_file {
    use super::*;
    use crate::config::is_valid_config;
    use crate::verif_support::*;
    use crate::{vassert, vcover};

    pub const SEED_HEX: &str = "f61075c988feb9cb700a4a6a3291bfbc9cab11b9c9eca8c802468eb38a43d7d3";

    // ---- stubs for what FileConfig::new touches outside the language (Kani only)
    pub fn stub_file_open<P: AsRef<std::path::Path>>(_p: P) -> std::io::Result<File> {
        use std::os::fd::FromRawFd;
        Ok(unsafe { File::from_raw_fd(100) })
    }
    pub fn stub_read_to_string(_f: &mut File, _buf: &mut String) -> std::io::Result<usize> {
        Ok(0)
    }
    pub fn stub_ownedfd_drop(_fd: &mut std::os::fd::OwnedFd) {}
    pub fn stub_available_parallelism() -> std::io::Result<std::num::NonZero<usize>> {
        Ok(std::num::NonZero::new(4).unwrap())
    }
    /// format! is used by udp_socket_addr ("{interface}:{port}", then parsed) and for error texts;
    /// the formatting machinery is out of CBMC's reach, a fixed valid address text stands in
    pub fn stub_format(_args: core::fmt::Arguments<'_>) -> String {
        String::from("127.0.0.1:1")
    }

    /// udp_socket_addr() formats "{interface}:{port}" and parses it back; the address parser is not
    /// the subject and costs CBMC minutes: any text parses to a fixed address
    pub fn stub_socketaddr_from_str(_s: &str) -> Result<std::net::SocketAddr, std::net::AddrParseError> {
        Ok(std::net::SocketAddr::from(([127, 0, 0, 1], 1)))
    }

    /// The seed text is not the subject of these harnesses; decoding 64 hex characters forces an
    /// unwind bound of ~70, and CBMC then also unwinds the recursive drop glue of std::io::Error that
    /// deep (no result in 900 s).  Any text decodes to bytes of half its length.
    pub fn stub_hex_decode(_e: &data_encoding::Encoding, input: &[u8]) -> Result<Vec<u8>, data_encoding::DecodeError> {
        Ok(vec![0u8; input.len() / 2])
    }

    /// which: 0 port, 1 batch_size, 2 status_interval, 3 health_check_port, 4 fault_percentage, 5 num_workers
    const KEYS: [&str; 6] = ["port", "batch_size", "status_interval", "health_check_port", "fault_percentage", "num_workers"];
    const DEFAULTS: [i64; 6] = [8686, 32, 100, 8000, 5, 3];

    fn load(values: &[i64; 6]) -> Result<FileConfig, Error> {
        load_with(values, 6, false)
    }

    /// like `load`, but the setting `nonint` (0..6; 6 = none) is written as a non-integer scalar whose
    /// numeric value is the digit `d`: a quoted string `"d"` or (as_real) the float `d.0`
    fn load_with(values: &[i64; 6], nonint: usize, as_real: bool) -> Result<FileConfig, Error> {
        load_with_d(values, nonint, as_real, 0)
    }
    fn load_with_d(values: &[i64; 6], nonint: usize, as_real: bool, d: u8) -> Result<FileConfig, Error> {
        #[cfg(kani)]
        {
            use yaml_rust::{Hash, Yaml};
            let s = |x: &str| Yaml::String(x.to_string());
            let mut items = Vec::with_capacity(9);
            items.push((s("interface"), s("127.0.0.1")));
            items.push((s("seed"), s(SEED_HEX)));
            let mut i = 0;
            while i < 6 {
                if i == nonint {
                    let mut txt = if as_real { vec![b'0', b'.', b'0'] } else { vec![b'0'] };
                    txt[0] = b'0' + d;
                    let txt = unsafe { String::from_utf8_unchecked(txt) };
                    items.push((s(KEYS[i]), if as_real { Yaml::Real(txt) } else { Yaml::String(txt) }));
                } else {
                    items.push((s(KEYS[i]), Yaml::Integer(values[i])));
                }
                i += 1;
            }
            yaml_rust::model_set_doc(vec![Yaml::Hash(Hash { items })]);
            FileConfig::new("verif.cfg")
        }
        #[cfg(not(kani))]
        {
            // replay: a real file, the real YAML parser
            let mut text = format!("interface: 127.0.0.1\nseed: {}\n", SEED_HEX);
            for i in 0..6 {
                if i == nonint {
                    if as_real {
                        text.push_str(&format!("{}: {}.0\n", KEYS[i], d));
                    } else {
                        text.push_str(&format!("{}: \"{}\"\n", KEYS[i], d));
                    }
                } else {
                    text.push_str(&format!("{}: {}\n", KEYS[i], values[i]));
                }
            }
            let path = std::env::temp_dir().join(format!("verif-c16-{}.cfg", std::process::id()));
            std::fs::write(&path, text).unwrap();
            let r = std::panic::catch_unwind(|| FileConfig::new(path.to_str().unwrap()));
            let _ = std::fs::remove_file(&path);
            match r {
                Ok(v) => v,
                // a loader panic is a refused start
                Err(_) => Err(Error::InvalidConfiguration("loader panicked".to_string())),
            }
        }
    }

    /// Loader obligation: if FileConfig::new accepts the document, every setting it reports is
    /// exactly the value written (no narrowing, no default, no other field), and a value inside the
    /// documented range is accepted.  (Calling is_valid_config on the loaded object as well makes CBMC
    /// explore the persistence-directory branch -- file system calls and io::Error drop glue -- because
    /// after the loader's key matching every field is an if-then-else term; the range obligation is
    /// therefore checked separately on MemoryConfig by c16_valid.)
    pub fn file_body(which: usize) {
        let v = vany_i64();
        let mut values = DEFAULTS;
        values[which] = v;
        let r = load(&values);
        vcover!(r.is_ok(), "COVER:start-accepted");
        vcover!(r.is_err(), "COVER:start-refused");
        if let Ok(cfg) = &r {
            let got: [i128; 6] = [
                cfg.port() as i128,
                cfg.batch_size() as i128,
                cfg.status_interval().as_secs() as i128,
                cfg.health_check_port().map(|p| p as i128).unwrap_or(-1),
                cfg.fault_percentage() as i128,
                cfg.num_workers() as i128,
            ];
            let mut i = 0;
            while i < 6 {
                vassert!(got[i] == values[i] as i128, "VERIF:C16:effective-setting-equals-the-value-written-in-the-file");
                i += 1;
            }
        }
        let must_accept = match which {
            0 => v >= 1 && v <= 65535,
            1 => v >= 1 && v <= 64,
            2 => v >= 1 && v <= 65535,
            3 => v >= 1 && v <= 65535,
            4 => v >= 0 && v <= 50,
            _ => v >= 1 && v <= 1024,
        };
        vassert!(!must_accept || r.is_ok(), "VERIF:C16:documented-in-range-value-accepted-by-the-loader");
        core::mem::forget(r);
    }

    /// Non-integer scalar obligation: an integer setting written as a quoted string ("7") or as a
    /// float (7.0) with a digit 1..=9 -- in range for every setting -- is either refused (Err or a
    /// loader panic, which ends start-up) or taken at its written value; it is never silently
    /// replaced by the default.  The solver chooses the digit; the scalar kind is fixed per harness
    /// (a symbolic kind did not finish in 600 s); the other five settings keep in-range constants.
    pub fn nonint_body(which: usize, as_real: bool) {
        let d = vany_u8();
        vassume(d >= 1 && d <= 9);
        vcover!(true, "COVER:nonint-document-built");
        let r = load_with_d(&DEFAULTS, which, as_real, d);
        if let Ok(cfg) = &r {
            let got: [i128; 6] = [
                cfg.port() as i128,
                cfg.batch_size() as i128,
                cfg.status_interval().as_secs() as i128,
                cfg.health_check_port().map(|p| p as i128).unwrap_or(-1),
                cfg.fault_percentage() as i128,
                cfg.num_workers() as i128,
            ];
            vassert!(got[which] == d as i128, "VERIF:C16:non-integer-scalar-is-refused-or-taken-at-its-written-value");
        }
        core::mem::forget(r);
    }

    /// Range obligation: is_valid_config accepts exactly the documented ranges (port != 0,
    /// batch_size 1..=64, fault_percentage 0..=50, num_workers >= 1) -- on a MemoryConfig whose four
    /// range-documented settings are arbitrary.
    pub fn valid_body() {
        let cfg = crate::config::MemoryConfig {
            port: vany_u16(),
            interface: "127.0.0.1".to_string(),
            seed: vec![0u8; 32],
            batch_size: vany_u8(),
            status_interval: Duration::from_secs(600),
            kms_protection: KmsProtection::Plaintext,
            health_check_port: None,
            client_stats: false,
            fault_percentage: vany_u8(),
            num_workers: vany_usize(),
        };
        let want = cfg.port != 0
            && cfg.batch_size >= 1 && cfg.batch_size <= 64
            && cfg.fault_percentage <= 50
            && cfg.num_workers >= 1;
        let got = is_valid_config(&cfg);
        vcover!(got, "COVER:start-accepted");
        vcover!(!got, "COVER:start-refused");
        vassert!(got == want, "VERIF:C16:configuration-accepted-iff-every-setting-is-in-its-documented-range");
        core::mem::forget(cfg);
    }

    //@ family c16_valid props=C16 mode=panics-ok mod=config::file::verif_file must_cover=COVER:start-accepted,COVER:start-refused timeout=900
    //@ harness c16_valid_ranges tier=quick shape="is_valid_config on a MemoryConfig: port any u16, batch_size any u8, fault_percentage any u8, num_workers any usize"
    #[cfg_attr(kani, kani::proof)]
    #[cfg_attr(kani, kani::unwind(12))]
    #[cfg_attr(kani, kani::stub(alloc::fmt::format, crate::config::file::verif_file::stub_format))]
    #[cfg_attr(kani, kani::stub(<std::net::SocketAddr as std::str::FromStr>::from_str, crate::config::file::verif_file::stub_socketaddr_from_str))]
    #[cfg_attr(not(kani), test)]
    fn c16_valid_ranges() {
        valid_body();
    }

    macro_rules! c16_file {
        ($name:ident, $which:expr) => {
            #[cfg_attr(kani, kani::proof)]
            #[cfg_attr(kani, kani::unwind(12))]
            #[cfg_attr(kani, kani::stub(data_encoding::Encoding::decode, crate::config::file::verif_file::stub_hex_decode))]
            #[cfg_attr(kani, kani::stub(std::fs::File::open, crate::config::file::verif_file::stub_file_open))]
            #[cfg_attr(kani, kani::stub(<std::fs::File as std::io::Read>::read_to_string, crate::config::file::verif_file::stub_read_to_string))]
            #[cfg_attr(kani, kani::stub(<std::os::fd::OwnedFd as std::ops::Drop>::drop, crate::config::file::verif_file::stub_ownedfd_drop))]
            #[cfg_attr(kani, kani::stub(std::thread::available_parallelism, crate::config::file::verif_file::stub_available_parallelism))]
            #[cfg_attr(kani, kani::stub(alloc::fmt::format, crate::config::file::verif_file::stub_format))]
            #[cfg_attr(kani, kani::stub(<std::net::SocketAddr as std::str::FromStr>::from_str, crate::config::file::verif_file::stub_socketaddr_from_str))]
            #[cfg_attr(not(kani), test)]
            fn $name() {
                file_body($which);
            }
        };
    }

    //@ family c16_file props=C16 mode=panics-ok mod=config::file::verif_file must_cover=COVER:start-accepted,COVER:start-refused timeout=900
    //@ harness c16_file_port tier=quick shape="port: any i64"
    c16_file!(c16_file_port, 0);
    //@ harness c16_file_batch_size tier=quick shape="batch_size: any i64"
    c16_file!(c16_file_batch_size, 1);
    //@ harness c16_file_status_interval tier=quick shape="status_interval: any i64"
    c16_file!(c16_file_status_interval, 2);
    //@ harness c16_file_health_check_port tier=quick shape="health_check_port: any i64"
    c16_file!(c16_file_health_check_port, 3);
    //@ harness c16_file_fault_percentage tier=quick shape="fault_percentage: any i64"
    c16_file!(c16_file_fault_percentage, 4);
    //@ harness c16_file_num_workers tier=quick shape="num_workers: any i64"
    c16_file!(c16_file_num_workers, 5);

    macro_rules! c16_nonint {
        ($name:ident, $which:expr, $real:expr) => {
            #[cfg_attr(kani, kani::proof)]
            #[cfg_attr(kani, kani::unwind(12))]
            #[cfg_attr(kani, kani::stub(data_encoding::Encoding::decode, crate::config::file::verif_file::stub_hex_decode))]
            #[cfg_attr(kani, kani::stub(std::fs::File::open, crate::config::file::verif_file::stub_file_open))]
            #[cfg_attr(kani, kani::stub(<std::fs::File as std::io::Read>::read_to_string, crate::config::file::verif_file::stub_read_to_string))]
            #[cfg_attr(kani, kani::stub(<std::os::fd::OwnedFd as std::ops::Drop>::drop, crate::config::file::verif_file::stub_ownedfd_drop))]
            #[cfg_attr(kani, kani::stub(std::thread::available_parallelism, crate::config::file::verif_file::stub_available_parallelism))]
            #[cfg_attr(kani, kani::stub(alloc::fmt::format, crate::config::file::verif_file::stub_format))]
            #[cfg_attr(kani, kani::stub(<std::net::SocketAddr as std::str::FromStr>::from_str, crate::config::file::verif_file::stub_socketaddr_from_str))]
            #[cfg_attr(not(kani), test)]
            fn $name() {
                nonint_body($which, $real);
            }
        };
    }

    //@ family c16_nonint props=C16 mode=panics-ok mod=config::file::verif_file must_cover=COVER:nonint-document-built timeout=300
    //@ harness c16_nonint_port_str tier=quick shape="port written as a quoted one-digit string, digit 1..9 symbolic; other settings in-range constants"
    c16_nonint!(c16_nonint_port_str, 0, false);
    //@ harness c16_nonint_batch_size_str tier=quick shape="batch_size written as a quoted one-digit string, digit 1..9 symbolic; other settings in-range constants"
    c16_nonint!(c16_nonint_batch_size_str, 1, false);
    //@ harness c16_nonint_status_interval_str tier=quick shape="status_interval written as a quoted one-digit string, digit 1..9 symbolic; other settings in-range constants"
    c16_nonint!(c16_nonint_status_interval_str, 2, false);
    //@ harness c16_nonint_health_check_port_str tier=quick shape="health_check_port written as a quoted one-digit string, digit 1..9 symbolic; other settings in-range constants"
    c16_nonint!(c16_nonint_health_check_port_str, 3, false);
    //@ harness c16_nonint_fault_percentage_str tier=quick shape="fault_percentage written as a quoted one-digit string, digit 1..9 symbolic; other settings in-range constants"
    c16_nonint!(c16_nonint_fault_percentage_str, 4, false);
    //@ harness c16_nonint_num_workers_str tier=quick shape="num_workers written as a quoted one-digit string, digit 1..9 symbolic; other settings in-range constants"
    c16_nonint!(c16_nonint_num_workers_str, 5, false);
    //@ harness c16_nonint_batch_size_real tier=quick shape="batch_size written as the float d.0, digit 1..9 symbolic; other settings in-range constants"
    c16_nonint!(c16_nonint_batch_size_real, 1, true);
    //@ harness c16_nonint_fault_percentage_real tier=quick shape="fault_percentage written as the float d.0, digit 1..9 symbolic; other settings in-range constants"
    c16_nonint!(c16_nonint_fault_percentage_real, 4, true);
}
