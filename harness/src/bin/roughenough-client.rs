
// ===========================================================================
// woven by /verif: proof harnesses for src/bin/roughenough-client.rs (C01, C03)
// ===========================================================================
#[cfg(any(kani, feature = "verif_replay"))]
#[allow(dead_code, unused_imports)]
mod verif_client {
    use super::*;
    use ed25519_dalek as dalek;
    use ring::blk;

    // ---- the same two-mode input source as the library harnesses (see src/lib.rs weave)
    #[cfg(not(kani))]
    mod tape {
        use std::cell::RefCell;
        thread_local! { pub static TAPE: RefCell<Option<(Vec<u8>, usize)>> = RefCell::new(None); }
        pub fn pop(n: usize) -> Vec<u8> {
            TAPE.with(|t| {
                let mut t = t.borrow_mut();
                if t.is_none() {
                    let hex = std::env::var("VERIF_INPUT").unwrap_or_default();
                    let b = hex.as_bytes();
                    let mut v = Vec::new();
                    let mut i = 0;
                    while i + 1 < b.len() {
                        v.push(((b[i] as char).to_digit(16).unwrap() as u8) << 4 | (b[i + 1] as char).to_digit(16).unwrap() as u8);
                        i += 2;
                    }
                    *t = Some((v, 0));
                }
                let (v, pos) = t.as_mut().unwrap();
                let mut out = Vec::with_capacity(n);
                for _ in 0..n {
                    out.push(if *pos < v.len() { v[*pos] } else { 0 });
                    *pos += 1;
                }
                out
            })
        }
    }
    #[cfg(kani)]
    fn vany_bytes<const N: usize>() -> [u8; N] {
        kani::any()
    }
    #[cfg(not(kani))]
    fn vany_bytes<const N: usize>() -> [u8; N] {
        let v = tape::pop(N);
        let mut a = [0u8; N];
        a.copy_from_slice(&v);
        a
    }
    fn vany_u64() -> u64 {
        u64::from_le_bytes(vany_bytes::<8>())
    }
    fn vany_u32() -> u32 {
        u32::from_le_bytes(vany_bytes::<4>())
    }
    fn vany_bool() -> bool {
        vany_bytes::<1>()[0] & 1 == 1
    }
    #[cfg(kani)]
    fn vassume(c: bool) {
        kani::assume(c)
    }
    #[cfg(not(kani))]
    fn vassume(c: bool) {
        if !c {
            println!("VERIF-REPLAY: precondition-not-met");
            std::process::exit(0);
        }
    }
    macro_rules! vassert {
        ($c:expr, $id:literal) => {
            assert!($c, $id);
        };
    }
    macro_rules! vcover {
        ($c:expr, $id:literal) => {
            #[cfg(kani)]
            kani::cover!($c, $id);
            #[cfg(not(kani))]
            {
                let _ = $c;
            }
        };
    }

    // two valid Ed25519 public keys (RFC 8032 test vectors 1 and 2), so that key parsing
    // succeeds natively as well
    const LONG_TERM_PK: [u8; 32] = [
        0xd7, 0x5a, 0x98, 0x01, 0x82, 0xb1, 0x0a, 0xb7, 0xd5, 0x4b, 0xfe, 0xd3, 0xc9, 0x64, 0x07, 0x3a,
        0x0e, 0xe1, 0x72, 0xf3, 0xda, 0xa6, 0x23, 0x25, 0xaf, 0x02, 0x1a, 0x68, 0xf7, 0x07, 0x51, 0x1a,
    ];
    const ONLINE_PK: [u8; 32] = [
        0x3d, 0x40, 0x17, 0xc3, 0xe8, 0x43, 0x89, 0x5a, 0x92, 0xb7, 0x0a, 0xa7, 0x4d, 0x1b, 0x7e, 0xbc,
        0x9c, 0x98, 0x2c, 0xcf, 0x2e, 0xc4, 0x96, 0x8c, 0xc0, 0xcd, 0x55, 0xf1, 0x2a, 0xf4, 0x66, 0x0c,
    ];

    const DELE_CTX_GOOGLE: &[u8] = b"RoughTime v1 delegation signature--\x00";
    const DELE_CTX_IETF: &[u8] = b"RoughTime v1 delegation signature\x00";
    const SIGN_CTX: &[u8] = b"RoughTime v1 response signature\x00";

    fn map_of(pairs: Vec<(Tag, Vec<u8>)>) -> HashMap<Tag, Vec<u8>> {
        pairs.into_iter().collect()
    }

    /// the protocol's own inclusion check, written from the protocol descriptions (hash width W)
    fn spec_root<const W: usize>(leaf: &[u8], mut index: u32, path: &[u8], depth: usize) -> [u8; W] {
        let mut inp = [0u8; 65];
        inp[1..1 + leaf.len()].copy_from_slice(leaf);
        let full = ring::digest::model_hash(&inp[..1 + leaf.len()]);
        let mut h = [0u8; W];
        h.copy_from_slice(&full[..W]);
        let mut lvl = 0;
        while lvl < depth {
            let sib = &path[lvl * W..lvl * W + W];
            let mut node = [0u8; 129];
            node[0] = 0x01;
            if index & 1 == 0 {
                node[1..1 + W].copy_from_slice(&h);
                node[1 + W..1 + 2 * W].copy_from_slice(sib);
            } else {
                node[1..1 + W].copy_from_slice(sib);
                node[1 + W..1 + 2 * W].copy_from_slice(&h);
            }
            let full = ring::digest::model_hash(&node[..1 + 2 * W]);
            h.copy_from_slice(&full[..W]);
            index >>= 1;
            lvl += 1;
        }
        h
    }

    fn same(a: &[u8], b: &[u8]) -> bool {
        if a.len() != b.len() {
            false
        } else if a.len() == 64 {
            blk::eq64(a.try_into().unwrap(), b.try_into().unwrap())
        } else if a.len() == 32 {
            blk::eq32(a.try_into().unwrap(), b.try_into().unwrap())
        } else {
            false
        }
    }

    /// A response as the client holds it after parsing (ResponseHandler's maps), every value
    /// symbolic unless `honest_root`: then ROOT is the root the path really leads to.
    /// NL = nonce length, W = hash width, D = path depth.
    struct Parts<const NL: usize, const W: usize, const PL: usize> {
        nonce: [u8; NL],
        sig: [u8; 64],
        cert_sig: [u8; 64],
        path: [u8; PL],
        indx: u32,
        root: [u8; W],
        midp: u64,
        radi: u32,
        mint: u64,
        maxt: u64,
        dele: Vec<u8>,
        srep: Vec<u8>,
    }

    fn build<const NL: usize, const W: usize, const PL: usize>(version: Version, honest_root: bool, honest_window: bool) -> (ResponseHandler, Parts<NL, W, PL>) {
        let nonce: [u8; NL] = vany_bytes::<NL>();
        let sig: [u8; 64] = vany_bytes::<64>();
        let cert_sig: [u8; 64] = vany_bytes::<64>();
        let path: [u8; PL] = vany_bytes::<PL>();
        let indx = vany_u32();
        let mut root: [u8; W] = vany_bytes::<W>();
        let midp = vany_u64();
        let radi = vany_u32();
        let mint = vany_u64();
        let maxt = vany_u64();
        if honest_window {
            vassume(mint <= midp && midp <= maxt);
        }
        if honest_root {
            vassume((indx as usize) < (1usize << (PL / W)));
            root = spec_root::<W>(&nonce, indx, &path, PL / W);
        }
        // DELE = {PUBK, MINT, MAXT}
        let mut dele_msg = RtMessage::with_capacity(3);
        dele_msg.add_field(Tag::PUBK, &ONLINE_PK).unwrap();
        dele_msg.add_field(Tag::MINT, &mint.to_le_bytes()).unwrap();
        dele_msg.add_field(Tag::MAXT, &maxt.to_le_bytes()).unwrap();
        let dele = dele_msg.encode().unwrap();
        // SREP
        let mut srep_msg = RtMessage::with_capacity(5);
        if version == Version::RfcDraft13 {
            srep_msg.add_field(Tag::VER, version.wire_bytes()).unwrap();
        }
        srep_msg.add_field(Tag::RADI, &radi.to_le_bytes()).unwrap();
        srep_msg.add_field(Tag::MIDP, &midp.to_le_bytes()).unwrap();
        if version == Version::RfcDraft13 {
            srep_msg.add_field(Tag::VERS, &Version::supported_versions_wire()).unwrap();
        }
        srep_msg.add_field(Tag::ROOT, &root).unwrap();
        let srep = srep_msg.encode().unwrap();

        let msg = map_of(vec![
            (Tag::SIG, sig.to_vec()),
            (Tag::NONC, nonce.to_vec()),
            (Tag::PATH, path.to_vec()),
            (Tag::SREP, srep.clone()),
            (Tag::INDX, indx.to_le_bytes().to_vec()),
        ]);
        let srep_map = map_of(vec![
            (Tag::RADI, radi.to_le_bytes().to_vec()),
            (Tag::MIDP, midp.to_le_bytes().to_vec()),
            (Tag::ROOT, root.to_vec()),
        ]);
        let cert = map_of(vec![(Tag::SIG, cert_sig.to_vec()), (Tag::DELE, dele.clone())]);
        let dele_map = map_of(vec![
            (Tag::PUBK, ONLINE_PK.to_vec()),
            (Tag::MINT, mint.to_le_bytes().to_vec()),
            (Tag::MAXT, maxt.to_le_bytes().to_vec()),
        ]);
        let h = mk_handler(version, LONG_TERM_PK.to_vec(), msg, srep_map, cert, dele_map, nonce.to_vec(), nonce.to_vec());
        (h, Parts { nonce, sig, cert_sig, path, indx, root, midp, radi, mint, maxt, dele, srep })
    }

    /// the single place that names ResponseHandler's fields
    #[allow(clippy::too_many_arguments)]
    fn mk_handler(
        version: Version,
        pub_key: Vec<u8>,
        msg: HashMap<Tag, Vec<u8>>,
        srep: HashMap<Tag, Vec<u8>>,
        cert: HashMap<Tag, Vec<u8>>,
        dele: HashMap<Tag, Vec<u8>>,
        nonce: Vec<u8>,
        request: Vec<u8>,
    ) -> ResponseHandler {
        ResponseHandler { pub_key: Some(pub_key), msg, srep, cert, dele, nonce, request, version }
    }

    fn verify_record(pk: &[u8; 32], ctx: &[u8], payload: &[u8], sig: &[u8; 64]) -> Option<bool> {
        let mut m = [0u8; 160];
        m[..ctx.len()].copy_from_slice(ctx);
        m[ctx.len()..ctx.len() + payload.len()].copy_from_slice(payload);
        let want = dalek::Msg::from_bytes(&m[..ctx.len() + payload.len()]);
        let log = dalek::model_log();
        let mut i = 0;
        let mut found = None;
        while i < dalek::VMAX {
            if i < log.nverifies && found.is_none() && dalek::eq32(&log.verifies[i].pk, pk) && log.verifies[i].msg.eq(&want)
                && dalek::eq64(&log.verifies[i].sig, sig)
            {
                found = Some(log.verifies[i].ok);
            }
            i += 1;
        }
        found
    }

    /// what: 0 signatures arbitrary (honest root and window), 1 root arbitrary, 2 window arbitrary
    fn handler_body<const NL: usize, const W: usize, const PL: usize>(version: Version, what: u8) {
        dalek::model_reset();
        ring::digest::model_reset(false);
        let (h, p) = build::<NL, W, PL>(version, what != 1, what != 2);
        let out = h.extract_time();
        // ---- reaching this point means the client accepted the response (every failed
        // validation ends the process before)
        vcover!(true, "COVER:response-accepted");
        vassert!(out.midpoint == p.midp && out.radius == p.radi, "VERIF:C01:reported-midpoint-and-radius-are-the-signed-ones");
        vassert!(out.verified, "VERIF:C01:verified-reported-only-after-all-validations");
        let dctx = match version {
            Version::Google => DELE_CTX_GOOGLE,
            Version::RfcDraft13 => DELE_CTX_IETF,
        };
        let v1 = verify_record(&LONG_TERM_PK, dctx, &p.dele, &p.cert_sig);
        vassert!(v1 == Some(true), "VERIF:C01:accepted-only-if-certificate-verifies-under-pinned-key-and-this-versions-context");
        let v2 = verify_record(&ONLINE_PK, SIGN_CTX, &p.srep, &p.sig);
        vassert!(v2 == Some(true), "VERIF:C01:accepted-only-if-signed-response-verifies-under-delegated-key");
        vassert!(p.mint <= p.midp && p.midp <= p.maxt, "VERIF:C01:accepted-only-if-midpoint-inside-delegation-window");
        let r = spec_root::<W>(&p.nonce, p.indx, &p.path, PL / W);
        vassert!(same(&r, &p.root), "VERIF:C01:accepted-only-if-path-binds-own-nonce-to-signed-root");
        core::mem::forget(h);
    }

    macro_rules! c01_handler {
        ($name:ident, $nl:expr, $w:expr, $pl:expr, $ver:expr, $what:expr, $unwind:expr) => {
            #[cfg_attr(kani, kani::proof)]
            #[cfg_attr(kani, kani::unwind($unwind))]
            #[cfg_attr(kani, kani::stub(<roughenough::Error as std::convert::From<std::io::Error>>::from, crate::verif_client::stub_error_from_io))]
            #[cfg_attr(not(kani), test)]
            fn $name() {
                handler_body::<$nl, $w, $pl>($ver, $what);
            }
        };
    }
    pub fn stub_error_from_io(_e: std::io::Error) -> roughenough::Error {
        roughenough::Error::EncodingFailure(String::new())
    }

    //@ family c01_handler props=C01 mode=panics-ok mod=verif_client target=client must_cover=COVER:response-accepted timeout=900
    //@ harness c01_sigs_classic_d0 tier=quick shape="classic, single-request batch (empty path); both signatures, nonce, midpoint, window symbolic; honest root and window"
    c01_handler!(c01_sigs_classic_d0, 64, 64, 0, Version::Google, 0, 12);
    //@ harness c01_sigs_ietf_d1 tier=thorough shape="IETF, batch of 2 (one path element); signatures, nonce, path, index symbolic" required=no
    c01_handler!(c01_sigs_ietf_d1, 32, 32, 32, Version::RfcDraft13, 0, 12);
    //@ harness c01_root_classic_d1 tier=thorough shape="classic, one path element; ROOT, path, index, nonce symbolic (any forged proof)" required=no
    c01_handler!(c01_root_classic_d1, 64, 64, 64, Version::Google, 1, 12);
    //@ harness c01_window_classic_d0 tier=quick shape="classic; MINT, MIDP, MAXT arbitrary u64"
    c01_handler!(c01_window_classic_d0, 64, 64, 0, Version::Google, 2, 12);
    //@ harness c01_window_ietf_d0 tier=thorough shape="IETF; MINT, MIDP, MAXT arbitrary u64"
    c01_handler!(c01_window_ietf_d0, 32, 32, 0, Version::RfcDraft13, 2, 12);
    //@ harness c01_root_ietf_d1 tier=thorough shape="IETF, one path element; ROOT, path, index, nonce symbolic" required=no
    c01_handler!(c01_root_ietf_d1, 32, 32, 32, Version::RfcDraft13, 1, 12);

    // ------------------------------------------------------------------ C03: honest responses are accepted
    /// An honest reference responder (its own keys, written from the protocol descriptions)
    /// answers the client's request; the client must accept, report verified, and report the
    /// signed midpoint.  LEAF: what the protocol hashes for this request (classic: the nonce;
    /// IETF: the whole request packet, here RL symbolic bytes standing for it).
    fn honest_body<const NL: usize, const RL: usize, const W: usize, const PL: usize>(version: Version) {
        honest_then::<NL, RL, W, PL>(version, false, false)
    }

    /// `then_forged`: after the honest response has been accepted, the same process is shown a
    /// second response (for a fresh nonce) that re-uses the genuine CERT.SIG bytes but carries the
    /// attacker's key in DELE and is signed by the attacker: the acceptance conditions must hold
    /// for the second response on its own (multi-request run, `-n 2`).
    fn honest_then<const NL: usize, const RL: usize, const W: usize, const PL: usize>(version: Version, then_forged: bool, sym_window: bool) {
        use dalek::Signer;
        dalek::model_reset();
        // the keys of this scenario are genuine public keys (derived from seeds): they parse
        dalek::model_all_points_valid(true);
        ring::digest::model_reset(false);
        let nonce: [u8; NL] = vany_bytes::<NL>();
        let request: [u8; RL] = vany_bytes::<RL>();
        let path: [u8; PL] = vany_bytes::<PL>();
        let indx = vany_u32();
        vassume((indx as usize) < (1usize << (PL / W)));
        let midp = vany_u64();
        // sym_window: a correctly signed delegation whose window is arbitrary (a responder whose
        // delegated key is used outside its validity window)
        let (mint, maxt) = if sym_window { (vany_u64(), vany_u64()) } else { (0u64, u64::MAX) };
        let lt_seed: [u8; 32] = vany_bytes::<32>();
        let ol_seed: [u8; 32] = vany_bytes::<32>();
        let lt = dalek::SigningKey::from_bytes(&lt_seed);
        let ol = dalek::SigningKey::from_bytes(&ol_seed);
        let lt_pk = lt.verifying_key().to_bytes();
        let ol_pk = ol.verifying_key().to_bytes();
        // protocol leaf
        let root: [u8; W] = match version {
            Version::Google => spec_root::<W>(&nonce, indx, &path, PL / W),
            Version::RfcDraft13 => spec_root::<W>(&request, indx, &path, PL / W),
        };
        let mut dele_msg = RtMessage::with_capacity(3);
        dele_msg.add_field(Tag::PUBK, &ol_pk).unwrap();
        dele_msg.add_field(Tag::MINT, &mint.to_le_bytes()).unwrap();
        dele_msg.add_field(Tag::MAXT, &maxt.to_le_bytes()).unwrap();
        let dele = dele_msg.encode().unwrap();
        let mut srep_msg = RtMessage::with_capacity(5);
        let radi: u32 = if sym_window { vany_u32() } else if version == Version::Google { 5_000_000 } else { 5 };
        if version == Version::RfcDraft13 {
            srep_msg.add_field(Tag::VER, version.wire_bytes()).unwrap();
        }
        srep_msg.add_field(Tag::RADI, &radi.to_le_bytes()).unwrap();
        srep_msg.add_field(Tag::MIDP, &midp.to_le_bytes()).unwrap();
        if version == Version::RfcDraft13 {
            srep_msg.add_field(Tag::VERS, &Version::supported_versions_wire()).unwrap();
        }
        srep_msg.add_field(Tag::ROOT, &root).unwrap();
        let srep = srep_msg.encode().unwrap();
        let dctx = match version {
            Version::Google => DELE_CTX_GOOGLE,
            Version::RfcDraft13 => DELE_CTX_IETF,
        };
        let mut m1 = [0u8; 160];
        m1[..dctx.len()].copy_from_slice(dctx);
        m1[dctx.len()..dctx.len() + dele.len()].copy_from_slice(&dele);
        let cert_sig = lt.sign(&m1[..dctx.len() + dele.len()]).to_bytes();
        let mut m2 = [0u8; 160];
        m2[..32].copy_from_slice(SIGN_CTX);
        m2[32..32 + srep.len()].copy_from_slice(&srep);
        let sig = ol.sign(&m2[..32 + srep.len()]).to_bytes();

        let msg = map_of(vec![
            (Tag::SIG, sig.to_vec()),
            (Tag::NONC, nonce.to_vec()),
            (Tag::PATH, path.to_vec()),
            (Tag::SREP, srep.clone()),
            (Tag::INDX, indx.to_le_bytes().to_vec()),
        ]);
        let srep_map = map_of(vec![
            (Tag::RADI, radi.to_le_bytes().to_vec()),
            (Tag::MIDP, midp.to_le_bytes().to_vec()),
            (Tag::ROOT, root.to_vec()),
        ]);
        let cert = map_of(vec![(Tag::SIG, cert_sig.to_vec()), (Tag::DELE, dele.clone())]);
        let dele_map = map_of(vec![
            (Tag::PUBK, ol_pk.to_vec()),
            (Tag::MINT, mint.to_le_bytes().to_vec()),
            (Tag::MAXT, maxt.to_le_bytes().to_vec()),
        ]);
        let h = mk_handler(version, lt_pk.to_vec(), msg, srep_map, cert, dele_map, nonce.to_vec(), request.to_vec());
        let out = h.extract_time();
        vcover!(true, "COVER:honest-response-accepted");
        vassert!(mint <= midp && midp <= maxt, "VERIF:C01:accepted-only-if-midpoint-inside-delegation-window");
        vassert!(out.verified, "VERIF:C03:honest-response-reported-verified");
        vassert!(out.midpoint == midp, "VERIF:C03:reported-midpoint-is-the-signed-midpoint");
        vassert!(out.radius == radi, "VERIF:C03:reported-radius-is-the-signed-radius");
        core::mem::forget(h);
        if then_forged {
            let at_seed: [u8; 32] = vany_bytes::<32>();
            let attacker = dalek::SigningKey::from_bytes(&at_seed);
            let at_pk = attacker.verifying_key().to_bytes();
            vassume(at_pk != ol_pk);
            let nonce2: [u8; NL] = vany_bytes::<NL>();
            let midp2 = vany_u64();
            let root2: [u8; W] = match version {
                Version::Google => spec_root::<W>(&nonce2, indx, &path, PL / W),
                Version::RfcDraft13 => spec_root::<W>(&request, indx, &path, PL / W),
            };
            let mut d2 = RtMessage::with_capacity(3);
            d2.add_field(Tag::PUBK, &at_pk).unwrap();
            d2.add_field(Tag::MINT, &0u64.to_le_bytes()).unwrap();
            d2.add_field(Tag::MAXT, &u64::MAX.to_le_bytes()).unwrap();
            let dele2 = d2.encode().unwrap();
            let mut s2 = RtMessage::with_capacity(5);
            if version == Version::RfcDraft13 {
                s2.add_field(Tag::VER, version.wire_bytes()).unwrap();
            }
            s2.add_field(Tag::RADI, &radi.to_le_bytes()).unwrap();
            s2.add_field(Tag::MIDP, &midp2.to_le_bytes()).unwrap();
            if version == Version::RfcDraft13 {
                s2.add_field(Tag::VERS, &Version::supported_versions_wire()).unwrap();
            }
            s2.add_field(Tag::ROOT, &root2).unwrap();
            let srep2 = s2.encode().unwrap();
            let mut m3 = [0u8; 160];
            m3[..32].copy_from_slice(SIGN_CTX);
            m3[32..32 + srep2.len()].copy_from_slice(&srep2);
            let sig2 = attacker.sign(&m3[..32 + srep2.len()]).to_bytes();
            let msg2 = map_of(vec![
                (Tag::SIG, sig2.to_vec()),
                (Tag::NONC, nonce2.to_vec()),
                (Tag::PATH, path.to_vec()),
                (Tag::SREP, srep2.clone()),
                (Tag::INDX, indx.to_le_bytes().to_vec()),
            ]);
            let srep_map2 = map_of(vec![
                (Tag::RADI, radi.to_le_bytes().to_vec()),
                (Tag::MIDP, midp2.to_le_bytes().to_vec()),
                (Tag::ROOT, root2.to_vec()),
            ]);
            let cert2 = map_of(vec![(Tag::SIG, cert_sig.to_vec()), (Tag::DELE, dele2.clone())]);
            let dele_map2 = map_of(vec![
                (Tag::PUBK, at_pk.to_vec()),
                (Tag::MINT, 0u64.to_le_bytes().to_vec()),
                (Tag::MAXT, u64::MAX.to_le_bytes().to_vec()),
            ]);
            let h2 = mk_handler(version, lt_pk.to_vec(), msg2, srep_map2, cert2, dele_map2, nonce2.to_vec(), request.to_vec());
            let out2 = h2.extract_time();
            // accepted: then the delegation of *this* response must have verified under the pinned key
            vcover!(true, "COVER:second-response-accepted");
            let v = verify_record(&lt_pk, dctx, &dele2, &cert_sig);
            vassert!(v == Some(true), "VERIF:C01:later-response-of-a-run-accepted-only-if-its-own-certificate-verifies");
            vassert!(out2.verified, "VERIF:C01:verified-reported-only-after-all-validations");
            core::mem::forget(h2);
        }
    }

    macro_rules! c03_honest {
        ($name:ident, $nl:expr, $rl:expr, $w:expr, $pl:expr, $ver:expr, $unwind:expr) => {
            #[cfg_attr(kani, kani::proof)]
            #[cfg_attr(kani, kani::unwind($unwind))]
            #[cfg_attr(kani, kani::stub(<roughenough::Error as std::convert::From<std::io::Error>>::from, crate::verif_client::stub_error_from_io))]
            #[cfg_attr(not(kani), test)]
            fn $name() {
                honest_body::<$nl, $rl, $w, $pl>($ver);
            }
        };
    }
    //@ family c01_sequence props=C01 mode=panics-ok mod=verif_client target=client must_cover=COVER:honest-response-accepted timeout=1500
    //@ harness c01_genuine_then_spliced_classic tier=thorough shape="classic: a genuine response is accepted, then a response re-using its CERT.SIG with an attacker DELE/SREP is shown" required=no
    #[cfg_attr(kani, kani::proof)]
    #[cfg_attr(kani, kani::unwind(12))]
    #[cfg_attr(kani, kani::stub(<roughenough::Error as std::convert::From<std::io::Error>>::from, crate::verif_client::stub_error_from_io))]
    #[cfg_attr(not(kani), test)]
    fn c01_genuine_then_spliced_classic() {
        honest_then::<64, 8, 64, 0>(Version::Google, true, false);
    }

    //@ family c01_window_signed props=C01 mode=panics-ok mod=verif_client target=client must_cover=COVER:honest-response-accepted timeout=900
    //@ harness c01_window_signed_classic tier=quick shape="classic: genuinely signed response whose delegation window, midpoint and radius are arbitrary"
    #[cfg_attr(kani, kani::proof)]
    #[cfg_attr(kani, kani::unwind(12))]
    #[cfg_attr(kani, kani::stub(<roughenough::Error as std::convert::From<std::io::Error>>::from, crate::verif_client::stub_error_from_io))]
    #[cfg_attr(not(kani), test)]
    fn c01_window_signed_classic() {
        honest_then::<64, 8, 64, 0>(Version::Google, false, true);
    }
    //@ harness c01_window_signed_ietf tier=thorough shape="IETF: genuinely signed response whose delegation window, midpoint and radius are arbitrary"
    #[cfg_attr(kani, kani::proof)]
    #[cfg_attr(kani, kani::unwind(12))]
    #[cfg_attr(kani, kani::stub(<roughenough::Error as std::convert::From<std::io::Error>>::from, crate::verif_client::stub_error_from_io))]
    #[cfg_attr(not(kani), test)]
    fn c01_window_signed_ietf() {
        honest_then::<32, 8, 32, 0>(Version::RfcDraft13, false, true);
    }

    //@ family c03_honest props=C03 mode=strict mod=verif_client target=client must_cover=COVER:honest-response-accepted timeout=900
    //@ harness c03_honest_classic_d0 tier=quick shape="classic, single-request batch; nonce, midpoint, both key seeds symbolic"
    c03_honest!(c03_honest_classic_d0, 64, 8, 64, 0, Version::Google, 12);
    //@ harness c03_honest_classic_d1 tier=thorough shape="classic, batch of 2 (either position): path element, index symbolic" required=no
    c03_honest!(c03_honest_classic_d1, 64, 8, 64, 64, Version::Google, 12);
    //@ harness c03_honest_ietf_d0 tier=quick shape="IETF, single-request batch; leaf = request packet (8 symbolic bytes stand for it)"
    c03_honest!(c03_honest_ietf_d0, 32, 8, 32, 0, Version::RfcDraft13, 12);
    //@ harness c03_honest_ietf_d1 tier=quick shape="IETF, batch of 2 (either position)" required=no
    c03_honest!(c03_honest_ietf_d1, 32, 8, 32, 32, Version::RfcDraft13, 12);
}
