
// ===========================================================================
// woven by /verif: helpers + proof harnesses for src/grease.rs (C02 fault gate, C08 add_errors)
// ===========================================================================
#[cfg(any(kani, feature = "verif_replay"))]
#[allow(dead_code, unused_imports)]
pub(crate) mod verif_grease {
    use super::*;
    use crate::verif_support::*;
    use crate::{vassert, vcover};
    use rand::SeedableRng;

    /// Grease with a PRNG seeded by the harness (Grease::new seeds from OS entropy, a syscall).
    pub fn grease_with_seed(pct: u8, seed: [u8; 16]) -> Grease {
        Grease { enabled: pct > 0, dist: Bernoulli::from_ratio(u32::from(pct), 100), prng: SmallRng::from_seed(seed) }
    }

    //@ family c02_grease props=C02 mode=strict mod=grease::verif_grease must_cover=COVER:grease-end
    //@ harness c02_grease_off_never_corrupts tier=quick shape="fault_percentage 0, any PRNG state (128-bit seed symbolic), 3 consecutive draws"
    /// With fault injection off nothing is ever corrupted, whatever the PRNG state.
    #[cfg_attr(kani, kani::proof)]
    #[cfg_attr(kani, kani::unwind(6))]
    #[cfg_attr(not(kani), test)]
    fn c02_grease_off_never_corrupts() {
        let seed: [u8; 16] = vany_bytes::<16>();
        let mut g = grease_with_seed(0, seed);
        vassert!(!g.should_add_error(), "VERIF:C02:no-fault-injection-when-percentage-is-zero");
        vassert!(!g.should_add_error(), "VERIF:C02:no-fault-injection-when-percentage-is-zero");
        vassert!(!g.should_add_error(), "VERIF:C02:no-fault-injection-when-percentage-is-zero");
        vcover!(true, "COVER:grease-end");
    }
}
