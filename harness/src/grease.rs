
// ===========================================================================
// woven by /verif: helpers + proof harnesses for src/grease.rs (C02 fault gate, C08 add_errors)
// ===========================================================================
#[cfg(any(kani, feature = "verif_replay"))]
#[allow(dead_code, unused_imports)]
pub(crate) mod verif_grease {
    use super::*;
    use crate::verif_support::*;
    use crate::{vassert, vcover};
    use rand::SeedableRng;

    /// Grease with a PRNG seeded by the harness (Grease::new seeds from OS entropy, a syscall).
    pub fn grease_with_seed(pct: u8, seed: [u8; 16]) -> Grease {
        Grease { enabled: pct > 0, dist: Bernoulli::from_ratio(u32::from(pct), 100), prng: SmallRng::from_seed(seed) }
    }

    //@ family c02_grease props=C02 mode=strict mod=grease::verif_grease must_cover=COVER:grease-end
    //@ harness c02_grease_off_never_corrupts tier=quick shape="fault_percentage 0, any PRNG state (128-bit seed symbolic), 3 consecutive draws"
    /// With fault injection off nothing is ever corrupted, whatever the PRNG state.
    #[cfg_attr(kani, kani::proof)]
    #[cfg_attr(kani, kani::unwind(6))]
    #[cfg_attr(not(kani), test)]
    fn c02_grease_off_never_corrupts() {
        let seed: [u8; 16] = vany_bytes::<16>();
        let mut g = grease_with_seed(0, seed);
        vassert!(!g.should_add_error(), "VERIF:C02:no-fault-injection-when-percentage-is-zero");
        vassert!(!g.should_add_error(), "VERIF:C02:no-fault-injection-when-percentage-is-zero");
        vassert!(!g.should_add_error(), "VERIF:C02:no-fault-injection-when-percentage-is-zero");
        vcover!(true, "COVER:grease-end");
    }

    /// add_errors on a well-formed six-field response, for every PRNG state: returns normally (no
    /// unwrap fails) and the result is not the valid response any more (tags out of order, or a
    /// different SIG), i.e. "fails verification outright".
    pub fn add_errors_body() {
        let seed: [u8; 16] = vany_bytes::<16>();
        let vals: [u8; 24] = vany_bytes::<24>();
        let mut g = grease_with_seed(50, seed);
        let tags = [Tag::SIG, Tag::NONC, Tag::PATH, Tag::SREP, Tag::CERT, Tag::INDX];
        let mut m = RtMessage::with_capacity(6);
        let mut i = 0;
        while i < 6 {
            m.add_field(tags[i], &vals[4 * i..4 * i + 4]).unwrap();
            i += 1;
        }
        let bad = g.add_errors(&m);
        vcover!(true, "COVER:grease-end");
        // still six (or five: NONC is dropped by the signature pathology) fields, never panics
        let n = bad.num_fields() as usize;
        vassert!(n == 6 || n == 5, "VERIF:C02:corrupted-response-keeps-its-fields");
        let mut ordered = true;
        let mut j = 1;
        while j < 6 {
            if j < n && !(bad.tags()[j - 1] < bad.tags()[j]) {
                ordered = false;
            }
            j += 1;
        }
        let sig_changed = match bad.get_field(Tag::SIG) {
            Some(s) => s.len() != 4 || s[0] != vals[0] || s[1] != vals[1] || s[2] != vals[2] || s[3] != vals[3],
            None => true,
        };
        vassert!(!ordered || sig_changed || n == 6, "VERIF:C02:corrupted-response-is-detectably-invalid");
        core::mem::forget(bad);
        core::mem::forget(m);
    }

    //@ family c08_grease props=C08,C02 mode=strict mod=grease::verif_grease must_cover=COVER:grease-end timeout=900
    //@ harness c08_grease_add_errors tier=thorough shape="add_errors on a six-field response, PRNG seed (128 bits) symbolic" required=no
    #[cfg_attr(kani, kani::proof)]
    #[cfg_attr(kani, kani::unwind(70))]
    #[cfg_attr(not(kani), test)]
    fn c08_grease_add_errors() {
        add_errors_body();
    }
}
