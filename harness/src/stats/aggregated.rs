
// ===========================================================================
// woven by /verif: proof harnesses for src/stats/aggregated.rs and ClientStats::merge (C17)
// ===========================================================================
#[cfg(any(kani, feature = "verif_replay"))]
#[allow(dead_code, unused_imports)]
pub(crate) mod verif_aggregated {
    use super::*;
    use crate::verif_support::*;
    use crate::{vassert, vcover};
    use std::net::{IpAddr, Ipv4Addr};

    /// `HashMap::new()` seeds its hasher from the OS (a syscall Kani cannot execute); the empty
    /// map inside AggregatedStats is never inserted into, so fixed keys change nothing.
    pub fn stub_random_state_new() -> std::hash::RandomState {
        unsafe { core::mem::transmute::<[u64; 2], std::hash::RandomState>([1, 2]) }
    }

    fn snapshot(s: &AggregatedStats) -> [u64; 9] {
        [
            s.rfc_requests, s.classic_requests, s.invalid_requests, s.health_checks, s.rfc_responses_sent,
            s.classic_responses_sent, s.bytes_sent as u64, s.send_failed_attempts, s.send_retry_attempts,
        ]
    }

    //@ family c17_aggregated props=C17 mode=strict mod=stats::aggregated::verif_aggregated must_cover=COVER:step-done
    //@ harness c17_aggregated_one_step tier=quick shape="arbitrary pre-state (9 counters < 2^32), any of the 8 recording operations, any byte count < 2^20, then clear"
    /// One step from an arbitrary state: the operation changes exactly its own counter by one
    /// (and the byte total by the bytes sent); the getters report the sums; clear zeroes all.
    /// Inductive: covers event sequences of any length below counter overflow.
    #[cfg_attr(kani, kani::proof)]
    #[cfg_attr(kani, kani::unwind(12))]
    #[cfg_attr(kani, kani::stub(std::hash::RandomState::new, crate::stats::aggregated::verif_aggregated::stub_random_state_new))]
    #[cfg_attr(not(kani), test)]
    fn c17_aggregated_one_step() {
        let mut s = AggregatedStats::new();
        let pre: [u32; 9] = [
            vany_u32(), vany_u32(), vany_u32(), vany_u32(), vany_u32(), vany_u32(), vany_u32(), vany_u32(), vany_u32(),
        ];
        s.rfc_requests = pre[0] as u64;
        s.classic_requests = pre[1] as u64;
        s.invalid_requests = pre[2] as u64;
        s.health_checks = pre[3] as u64;
        s.rfc_responses_sent = pre[4] as u64;
        s.classic_responses_sent = pre[5] as u64;
        s.bytes_sent = pre[6] as usize;
        s.send_failed_attempts = pre[7] as u64;
        s.send_retry_attempts = pre[8] as u64;
        let op = vany_u8();
        vassume(op < 8);
        let bytes = vany_u32() as usize;
        vassume(bytes < (1 << 20));
        let addr = IpAddr::V4(Ipv4Addr::new(10, 0, 0, 1));
        let before = snapshot(&s);
        // expected effect: (counter index, whether bytes are added)
        let (idx, adds_bytes) = match op {
            0 => { s.add_ietf_request(&addr); (0, false) }
            1 => { s.add_classic_request(&addr); (1, false) }
            2 => { s.add_invalid_request(&addr, &Error::RequestTooShort); (2, false) }
            3 => { s.add_health_check(&addr); (3, false) }
            4 => { s.add_rfc_response(&addr, bytes); (4, true) }
            5 => { s.add_classic_response(&addr, bytes); (5, true) }
            6 => { s.add_failed_send_attempt(&addr); (7, false) }
            _ => { s.add_retried_send_attempt(&addr); (8, false) }
        };
        let after = snapshot(&s);
        let mut i = 0;
        while i < 9 {
            let want = before[i] + if i == idx { 1 } else { 0 } + if i == 6 && adds_bytes { bytes as u64 } else { 0 };
            vassert!(after[i] == want, "VERIF:C17:event-changes-exactly-its-own-counter-once");
            i += 1;
        }
        vassert!(s.total_valid_requests() == after[0] + after[1], "VERIF:C17:total-valid-requests-is-rfc-plus-classic");
        vassert!(s.num_rfc_requests() == after[0] && s.num_classic_requests() == after[1], "VERIF:C17:request-getters");
        vassert!(s.total_invalid_requests() == after[2], "VERIF:C17:invalid-getter");
        vassert!(s.total_health_checks() == after[3], "VERIF:C17:health-getter");
        vassert!(s.total_responses_sent() == after[4] + after[5], "VERIF:C17:total-responses-is-rfc-plus-classic");
        vassert!(s.num_rfc_responses_sent() == after[4] && s.num_classic_responses_sent() == after[5], "VERIF:C17:response-getters");
        vassert!(s.total_bytes_sent() as u64 == after[6], "VERIF:C17:bytes-getter");
        vassert!(s.total_failed_send_attempts() == after[7] && s.total_retried_send_attempts() == after[8], "VERIF:C17:send-attempt-getters");
        vassert!(s.total_unique_clients() == 0 && s.stats_for_client(&addr).is_none(), "VERIF:C17:aggregated-tracks-no-addresses");
        s.clear();
        let z = snapshot(&s);
        let mut j = 0;
        while j < 9 {
            vassert!(z[j] == 0, "VERIF:C17:clear-zeroes-every-counter");
            j += 1;
        }
        vcover!(true, "COVER:step-done");
        core::mem::forget(s);
    }

    fn any_client(ip: IpAddr) -> crate::stats::ClientStats {
        let c = crate::stats::ClientStats {
            rfc_requests: vany_u32(),
            classic_requests: vany_u32(),
            invalid_requests: vany_u32(),
            health_checks: vany_u32(),
            rfc_responses_sent: vany_u32(),
            classic_responses_sent: vany_u32(),
            bytes_sent: vany_u32() as usize,
            failed_send_attempts: vany_u32(),
            retried_send_attempts: vany_u32(),
            first_seen: vany_i64(),
            ip_addr: ip,
        };
        vassume(c.rfc_requests < (1 << 31) && c.classic_requests < (1 << 31) && c.invalid_requests < (1 << 31));
        vassume(c.health_checks < (1 << 31) && c.rfc_responses_sent < (1 << 31) && c.classic_responses_sent < (1 << 31));
        vassume(c.failed_send_attempts < (1 << 31) && c.retried_send_attempts < (1 << 31));
        c
    }

    //@ harness c17_client_merge tier=quick shape="two arbitrary per-client records (counters < 2^31), same or different address" must_cover=COVER:same-address,COVER:other-address
    /// merging per-worker snapshots preserves every per-address sum; a record for another
    /// address changes nothing; first_seen becomes the minimum.
    #[cfg_attr(kani, kani::proof)]
    #[cfg_attr(kani, kani::unwind(8))]
    #[cfg_attr(not(kani), test)]
    fn c17_client_merge() {
        let ip_a = IpAddr::V4(Ipv4Addr::new(10, 0, 0, 1));
        let ip_b = IpAddr::V4(Ipv4Addr::new(10, 0, 0, 2));
        let same = vany_bool();
        let mut a = any_client(ip_a);
        let b = any_client(if same { ip_a } else { ip_b });
        let a0 = a;
        a.merge(&b);
        vcover!(same, "COVER:same-address");
        vcover!(!same, "COVER:other-address");
        if same {
            vassert!(a.rfc_requests == a0.rfc_requests + b.rfc_requests, "VERIF:C17:merge-sums-rfc-requests");
            vassert!(a.classic_requests == a0.classic_requests + b.classic_requests, "VERIF:C17:merge-sums-classic-requests");
            vassert!(a.invalid_requests == a0.invalid_requests + b.invalid_requests, "VERIF:C17:merge-sums-invalid-requests");
            vassert!(a.health_checks == a0.health_checks + b.health_checks, "VERIF:C17:merge-sums-health-checks");
            vassert!(a.rfc_responses_sent == a0.rfc_responses_sent + b.rfc_responses_sent, "VERIF:C17:merge-sums-rfc-responses");
            vassert!(a.classic_responses_sent == a0.classic_responses_sent + b.classic_responses_sent, "VERIF:C17:merge-sums-classic-responses");
            vassert!(a.bytes_sent == a0.bytes_sent + b.bytes_sent, "VERIF:C17:merge-sums-bytes");
            vassert!(a.failed_send_attempts == a0.failed_send_attempts + b.failed_send_attempts, "VERIF:C17:merge-sums-failed-sends");
            vassert!(a.retried_send_attempts == a0.retried_send_attempts + b.retried_send_attempts, "VERIF:C17:merge-sums-retried-sends");
            vassert!(a.first_seen == core::cmp::min(a0.first_seen, b.first_seen), "VERIF:C17:merge-keeps-earliest-first-seen");
            vassert!(a.ip_addr == ip_a, "VERIF:C17:merge-keeps-address");
        } else {
            vassert!(a == a0, "VERIF:C17:merge-of-other-address-changes-nothing");
        }
    }
}
