
// woven by /verif: make the harness helpers of the private submodule nameable crate-wide
#[cfg(any(kani, feature = "verif_replay"))]
#[allow(unused_imports)]
pub(crate) use self::aggregated::verif_aggregated;
