
// ===========================================================================
// woven by /verif: proof harness for src/server.rs collect_requests (C09 routing, C07 drop, C02 leaf choice, C17 wiring)
// ===========================================================================
#[cfg(any(kani, feature = "verif_replay"))]
#[allow(dead_code, unused_imports)]
pub(crate) mod verif_server {
    use super::*;
    use crate::message::verif_message::*;
    use crate::responder::verif_responder::{addr, mk_responder, queued, stub_thread_current};
    use crate::verif_support::*;
    use crate::{vassert, vcover};
    use crate::stats::ServerStats;

    fn classic_request(nonce: &[u8; 64]) -> Vec<u8> {
        let mut b = vec![0u8; 1024];
        b[0..4].copy_from_slice(&2u32.to_le_bytes());
        b[4..8].copy_from_slice(&64u32.to_le_bytes());
        b[8..12].copy_from_slice(&T_NONC.to_le_bytes());
        b[12..16].copy_from_slice(&T_PAD.to_le_bytes());
        b[16..80].copy_from_slice(nonce);
        b
    }

    fn ietf_request(nonce: &[u8; 32]) -> Vec<u8> {
        let mut b = vec![0u8; 1024];
        b[0..8].copy_from_slice(b"ROUGHTIM");
        b[8..12].copy_from_slice(&1012u32.to_le_bytes());
        b[12..16].copy_from_slice(&3u32.to_le_bytes());
        b[16..20].copy_from_slice(&4u32.to_le_bytes());
        b[20..24].copy_from_slice(&36u32.to_le_bytes());
        b[24..28].copy_from_slice(&T_VER.to_le_bytes());
        b[28..32].copy_from_slice(&T_NONC.to_le_bytes());
        b[32..36].copy_from_slice(&T_ZZZZ.to_le_bytes());
        b[36..40].copy_from_slice(&0x8000_000cu32.to_le_bytes());
        b[40..72].copy_from_slice(nonce);
        b
    }

    fn mk_server(batch_size: u8) -> Server {
        let seed = [5u8; 32];
        Server {
            batch_size,
            socket: UdpSocket::model(),
            health_listener: None,
            poll_duration: None,
            poll: Poll::new().unwrap(),
            responder_ietf: mk_responder(Version::RfcDraft13, &seed, 0, [0u8; 16]),
            responder_classic: mk_responder(Version::Google, &seed, 0, [0u8; 16]),
            buf: [0u8; 65_536],
            thread_name: String::new(),
            srv_value: vec![0u8; 32],
            stats_pub_freq: Duration::from_secs(60),
            stats_pub_timer: Timer::default(),
            stats_recorder: Box::new(AggregatedStats::new()),
            stats_queue: Arc::new(StatsQueue::new(2)),
        }
    }

    /// One call of collect_requests on a scripted socket: a classic request, an IETF request and a
    /// datagram of the given kind arrive back to back, then the socket is empty.
    /// junk: 0 = 100-byte datagram, 1 = 1024 zero bytes, 2 = framed request with a wrong frame length
    pub fn collect_body(junk: u8) {
        ed25519_dalek::model_reset();
        ring::rand::model_reset(None);
        ring::digest::model_reset(false);
        mio::model_reset();
        let n1: [u8; 64] = vany_bytes::<64>();
        let n2: [u8; 32] = vany_bytes::<32>();
        let d1 = classic_request(&n1);
        let d2 = ietf_request(&n2);
        let d3 = match junk {
            0 => vec![0u8; 100],
            1 => vec![0u8; 1024],
            _ => {
                let mut b = ietf_request(&n2);
                b[8..12].copy_from_slice(&1000u32.to_le_bytes());
                b
            }
        };
        {
            let w = mio::world();
            w.rx.push((d1.clone(), addr(0)));
            w.rx.push((d3, addr(2)));
            w.rx.push((d2.clone(), addr(1)));
        }
        let mut srv = mk_server(8);
        let empty = srv.collect_requests();
        vassert!(empty, "VERIF:C09:collect-reports-socket-drained");
        // routing: each accepted request is queued exactly once, in its own protocol's responder
        let qc = queued(&srv.responder_classic);
        let qi = queued(&srv.responder_ietf);
        vassert!(qc.len() == 1 && qi.len() == 1, "VERIF:C09:each-valid-request-queued-once-in-its-own-protocol-and-junk-in-none");
        vassert!(qc[0].1 == addr(0) && qi[0].1 == addr(1), "VERIF:C09:queued-with-its-own-source-address");
        vassert!(qc[0].0.len() == 64 && qi[0].0.len() == 32, "VERIF:C09:queued-with-its-own-nonce");
        let k1 = vany_index(64);
        let k2 = vany_index(32);
        vassert!(qc[0].0[k1] == n1[k1] && qi[0].0[k2] == n2[k2], "VERIF:C09:queued-with-its-own-nonce");
        // leaf choice: classic hashes the nonce, IETF the whole datagram as received
        let h = ring::digest::model_log();
        vassert!(h.n == 2, "VERIF:C02:one-leaf-hash-per-accepted-request");
        let mut want1 = [0u8; 65];
        want1[1..].copy_from_slice(&n1);
        vassert!(!h.q[0].long && ring::blk::Key::from_bytes(&want1).eq(&h.q[0].input), "VERIF:C02:classic-leaf-is-the-nonce");
        let mut want2 = [0u8; 160];
        want2[1..].copy_from_slice(&d2[..159]);
        vassert!(h.q[1].long && h.q[1].input.len == 1025, "VERIF:C02:ietf-leaf-is-the-whole-request-packet");
        let got2 = h.q[1].input.bytes();
        let k3 = vany_index(160);
        vassert!(got2[k3] == want2[k3], "VERIF:C02:ietf-leaf-is-the-whole-request-packet");
        // statistics match what arrived
        vassert!(srv.stats_recorder.num_classic_requests() == 1 && srv.stats_recorder.num_rfc_requests() == 1,
                 "VERIF:C17:valid-requests-recorded-by-protocol");
        vassert!(srv.stats_recorder.total_invalid_requests() == 1, "VERIF:C17:dropped-datagram-recorded-as-invalid");
        vcover!(true, "COVER:collect-end");
        core::mem::forget(srv);
    }

    macro_rules! c09_collect {
        ($name:ident, $junk:expr) => {
            #[cfg_attr(kani, kani::proof)]
            #[cfg_attr(kani, kani::unwind(12))]
            #[cfg_attr(kani, kani::stub(<crate::error::Error as std::convert::From<std::io::Error>>::from, crate::verif_support::stub_error_from_io))]
            #[cfg_attr(kani, kani::stub(std::thread::current::current, crate::responder::verif_responder::stub_thread_current))]
            #[cfg_attr(kani, kani::stub(std::hash::RandomState::new, crate::stats::verif_aggregated::stub_random_state_new))]
            #[cfg_attr(not(kani), test)]
            fn $name() {
                collect_body($junk);
            }
        };
    }
    //@ family c09_collect props=C09,C07,C02,C17 mode=strict mod=server::verif_server needs=src/message.rs,src/merkle.rs,src/key/online.rs,src/key/mod.rs,src/grease.rs,src/stats/aggregated.rs,src/stats/mod.rs,src/sign.rs,src/responder.rs must_cover=COVER:collect-end timeout=1200
    //@ harness c09_collect_short_junk tier=thorough shape="collect_requests: classic request, 100-byte datagram, IETF request (nonces symbolic)" required=no
    c09_collect!(c09_collect_short_junk, 0);
    //@ harness c09_collect_zero_junk tier=thorough shape="collect_requests: classic request, 1024 zero bytes, IETF request" required=no
    c09_collect!(c09_collect_zero_junk, 1);
    //@ harness c09_collect_bad_frame tier=thorough shape="collect_requests: classic request, framed request with wrong frame length, IETF request" required=no
    c09_collect!(c09_collect_bad_frame, 2);
}
